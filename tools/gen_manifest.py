#!/venv/bin/python
"""Regenerates MANIFEST.json from the property modules (run from /verif)."""
import importlib
import json
import os
import sys

sys.path.insert(0, os.path.dirname(os.path.dirname(os.path.abspath(__file__))))
PROPS = ['C%02d' % i for i in range(1, 20)]
BASELINE = ("cd /repo && /venv/bin/python -m pytest -ra -q -p no:cacheprovider --timeout=900 "
            "--continue-on-collection-errors")

checks, na = [], []
for pid in PROPS:
    try:
        mod = importlib.import_module('qsmon.props.%s' % pid.lower())
    except ModuleNotFoundError:
        na.append({'property_id': pid, 'reason': 'check not built yet in this round (design in DESIGN.md section 3; '
                   'runtime monitoring applies, nothing switches technique)'})
        continue
    checks.append({
        'property_id': pid,
        'quick_cmd': './check %s quick' % pid,
        'thorough_cmd': './check %s thorough' % pid,
        'evidence_file': 'evidence/%s.json' % pid,
        'replay_cmd_template': './check --replay {path}',
        'engine': 'qsmon',
        'level_claimed': {
            'category': mod.LEVEL,
            'text': getattr(mod, 'LEVEL_TEXT', None) or (
                'Runtime monitoring of the real code: held on the executions produced, never "verified". '
                + mod.RULE),
            'design_ref': 'DESIGN.md section 3, %s' % pid,
        },
        'level_note': ' | '.join(getattr(mod, 'ASSUMPTIONS', [])) or 'independent oracle written without importing qstrader',
        'technique': getattr(mod, 'TECHNIQUE', 'runtime monitoring: online monitor with an independent oracle on generated hostile workloads'),
    })

manifest = {
    'version': 1,
    'setup_cmd': './setup.sh',
    'hooks': {
        'guard': 'QSTRADER_VERIF',
        'enable': 'no source hook is needed: monitors attach to public classes at run time by replacing class '
                  'attributes (see DESIGN.md 2.1); checks export QSTRADER_VERIF=1 and import qstrader from '
                  '$QSMON_REPO (default /repo) working tree',
        'baseline_off_cmd': BASELINE,
        'source_commits': [],
        'add_only': True,
    },
    'engines': [{
        'name': 'qsmon', 'path': 'qsmon/',
        'serves_properties': [c['property_id'] for c in checks],
        'kind_free_text': 'runtime monitors (shadow models in exact rationals, exactly-once/ordering checkers over '
                          'recorded histories, invariants at hooks via icontract and attribute wrappers, twin-run '
                          'differential monitors) driven by seeded hostile workloads, sharded over 16 cores',
    }],
    'checks': checks,
    'not_applicable': na,
    'notes': 'Every check: exit 0 held on what was observed (KNOWN-FINDING lines allowed), exit 1 with '
             '"VIOLATION property=<id> replay=<path>", exit 2 "INCONCLUSIVE ..." when a deciding monitor was never '
             'reached or a shard died. Known findings: known_findings.json / KNOWN_FINDINGS.txt (fixed entries '
             'suppress nothing). Compiler sanitizers / race detectors do not apply: the repository is '
             'single-threaded pure Python with no native code (DESIGN.md section 1).',
}
with open('MANIFEST.json', 'w') as f:
    json.dump(manifest, f, indent=1)
print('MANIFEST.json: %d checks, %d not_applicable' % (len(checks), len(na)))
