#!/venv/bin/python
"""
Mutant / seeded-change self-test.

  tools/selftest.py mutants [id-prefix ...] [--tier quick] [--tests]
      apply each catalogue mutant to a scratch copy of /repo (outside /repo and /verif), run the quick check of the
      property it breaks against the copy (QSMON_REPO), report caught / MISSED. --tests also runs the repo's own
      151 tests on the mutated copy (they are expected to pass).
  tools/selftest.py patch <patch.diff> <Cxx> [<Cxx> ...] [--tests] [--tier quick]
      same for an arbitrary patch file (seeded changes from sub-agents).

Evidence of these runs goes to a scratch directory, never to /verif/evidence.
"""
import argparse
import json
import os
import shutil
import subprocess
import sys
import tempfile
import time

VERIF = os.path.dirname(os.path.dirname(os.path.abspath(__file__)))
sys.path.insert(0, os.path.join(VERIF, 'mutants'))


def make_copy():
    d = tempfile.mkdtemp(prefix='qsmon-mut-')
    subprocess.run(['git', '-C', '/repo', 'worktree', 'add', '-q', '--detach', os.path.join(d, 'repo'), 'HEAD'], check=True)
    # carry over uncommitted edits of /repo's working tree, if any
    diff = subprocess.run(['git', '-C', '/repo', 'diff'], stdout=subprocess.PIPE).stdout
    if diff.strip():
        subprocess.run(['git', '-C', os.path.join(d, 'repo'), 'apply'], input=diff, check=True)
    return d


def drop_copy(d):
    subprocess.run(['git', '-C', '/repo', 'worktree', 'remove', '--force', os.path.join(d, 'repo')])
    shutil.rmtree(d, ignore_errors=True)


def run_tests(repo):
    p = subprocess.run(['/venv/bin/python', '-m', 'pytest', '-q', '-p', 'no:cacheprovider', '-x', '--timeout=900'],
                       cwd=repo, stdout=subprocess.PIPE, stderr=subprocess.STDOUT,
                       env=dict(os.environ, PYTHONDONTWRITEBYTECODE='1', PYTHONPATH=repo))
    tail = p.stdout.decode().strip().splitlines()[-1] if p.stdout else ''
    return p.returncode == 0, tail


def run_check(repo, prop, tier, evdir, seed=None):
    env = dict(os.environ, QSMON_REPO=repo, QSMON_EVIDENCE_DIR=evdir, QSMON_REPLAY_DIR=os.path.join(evdir, 'replays'))
    if seed is not None:
        env['VERIF_SEED'] = str(seed)
    t0 = time.time()
    p = subprocess.run([os.path.join(VERIF, 'check'), prop, tier], cwd=VERIF, env=env,
                       stdout=subprocess.PIPE, stderr=subprocess.STDOUT)
    out = p.stdout.decode()
    keys = [ln.strip() for ln in out.splitlines() if ln.strip().startswith('key=')]
    return p.returncode, keys, out, time.time() - t0


def apply_edits(repo, edits):
    for f, old, new in edits:
        path = os.path.join(repo, f)
        s = open(path).read()
        if s.count(old) != 1:
            raise RuntimeError('anchor occurs %d times in %s' % (s.count(old), f))
        open(path, 'w').write(s.replace(old, new))


def main():
    ap = argparse.ArgumentParser()
    ap.add_argument('mode', choices=['mutants', 'patch'])
    ap.add_argument('args', nargs='*')
    ap.add_argument('--tier', default='quick')
    ap.add_argument('--tests', action='store_true')
    ap.add_argument('--seed', default=None)
    ap.add_argument('--json', default=None)
    a = ap.parse_args()
    results = []
    evdir = tempfile.mkdtemp(prefix='qsmon-mut-ev-')
    try:
        if a.mode == 'mutants':
            import catalogue
            todo = [m for m in catalogue.M if not a.args or any(m['id'].startswith(x) or m['property'] == x for x in a.args)]
            for m in todo:
                d = make_copy()
                try:
                    repo = os.path.join(d, 'repo')
                    apply_edits(repo, m['edits'])
                    tests = run_tests(repo) if a.tests else (None, '')
                    rc, keys, out, secs = run_check(repo, m['property'], a.tier, evdir, a.seed)
                    verdict = 'caught' if rc == 1 else ('INCONCLUSIVE' if rc == 2 else 'MISSED')
                    print('%-38s %s %-12s %5.1fs tests=%s %s' % (m['id'], m['property'], verdict, secs,
                                                                    {True: 'pass', False: 'FAIL', None: '-'}[tests[0]],
                                                                    (keys[0][:110] if keys else '')), flush=True)
                    if rc == 2:
                        print('    ' + out.strip().splitlines()[0][:300])
                    results.append({'id': m['id'], 'property': m['property'], 'verdict': verdict, 'tests_pass': tests[0],
                                    'keys': [k[:200] for k in keys[:3]], 'note': m['note'], 'seconds': round(secs, 1)})
                finally:
                    drop_copy(d)
        else:
            patch, props = a.args[0], a.args[1:]
            d = make_copy()
            try:
                repo = os.path.join(d, 'repo')
                subprocess.run(['git', '-C', repo, 'apply', os.path.abspath(patch)], check=True)
                if a.tests:
                    ok, tail = run_tests(repo)
                    print('repo tests on patched copy: %s (%s)' % ('pass' if ok else 'FAIL', tail))
                for prop in props:
                    rc, keys, out, secs = run_check(repo, prop, a.tier, evdir, a.seed)
                    verdict = 'caught' if rc == 1 else ('INCONCLUSIVE' if rc == 2 else 'MISSED')
                    print('%s %s %s %.1fs' % (os.path.basename(os.path.dirname(os.path.abspath(patch))), prop, verdict, secs))
                    for k in keys[:4]:
                        print('    ' + k[:400])
                    if rc == 2:
                        print('    ' + out.strip().splitlines()[0][:400])
                    results.append({'patch': patch, 'property': prop, 'verdict': verdict, 'keys': [k[:300] for k in keys[:4]]})
            finally:
                drop_copy(d)
    finally:
        shutil.rmtree(evdir, ignore_errors=True)
    if a.json:
        with open(a.json, 'w') as f:
            json.dump(results, f, indent=1)
    missed = [r for r in results if r['verdict'] != 'caught']
    print('%d run, %d not caught' % (len(results), len(missed)))
    return 0


if __name__ == '__main__':
    sys.exit(main())
