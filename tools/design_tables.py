#!/venv/bin/python
"""Regenerates DESIGN.md section 8.5 (seeded changes) from seeded/*/meta.json."""
import glob
import json
import os
import re

VERIF = os.path.dirname(os.path.dirname(os.path.abspath(__file__)))
s = open(os.path.join(VERIF, 'DESIGN.md')).read()
metas = [json.load(open(p)) for p in sorted(glob.glob(os.path.join(VERIF, 'seeded', '*', 'meta.json')))]


def rnd(m):
    mm = re.search(r'-r(\d+)$', m['id'])
    return int(mm.group(1)) if mm else 1


rows = []
stats = {}
for m in metas:
    own = m.get('checks', {}).get(m['property'], {})
    key = (own.get('keys') or [''])[0].split(' count=')[0].replace('key=', '')
    if m.get('superseded'):
        verdict = 'superseded (trigger removed by fix %s)' % ('F10' if 'F10' in m['superseded'] else 'F8')
    elif m.get('out_of_quantifier'):
        verdict = 'not claimed: outside the quantifier'
    elif m.get('not_claimed'):
        verdict = 'not claimed: ' + m['not_claimed']
    elif own.get('verdict') == 'caught':
        verdict = '`%s`' % key
    else:
        others = [(p, c) for p, c in sorted(m.get('checks', {}).items()) if p != m['property'] and c.get('verdict') == 'caught']
        if others:
            verdict = 'by ' + ', '.join('%s `%s`' % (p, (c.get('keys') or [''])[0].split(' count=')[0].replace('key=', ''))
                                        for p, c in others)
            if m.get('own_property_note'):
                verdict += ' (%s)' % m['own_property_note']
        else:
            verdict = '**%s**' % own.get('verdict', '?')
    r = rnd(m)
    st = stats.setdefault(r, {'n': 0, 'caught': 0, 'other': 0})
    st['n'] += 1
    if own.get('verdict') == 'caught' and not (m.get('superseded') or m.get('out_of_quantifier') or m.get('not_claimed')):
        st['caught'] += 1
    elif any(c.get('verdict') == 'caught' for c in m.get('checks', {}).values()) and not (
            m.get('superseded') or m.get('out_of_quantifier') or m.get('not_claimed')):
        st['byother'] = st.get('byother', 0) + 1
    elif m.get('superseded') or m.get('out_of_quantifier') or m.get('not_claimed'):
        st['other'] += 1
    rows.append('| %s | %d | %s | %s |' % (m['id'], r, m['needs_to_manifest'], verdict))

table = '\n'.join(rows)
summary = '; '.join('round %d: %d changes, %d caught by the quick tier of their own property now, %d by another property\'s check only, '
                    '%d not claimed/superseded' % (r, st['n'], st['caught'], st.get('byother', 0), st['other'])
                    for r, st in sorted(stats.items()))
begin = s.index('<!-- SEEDED-TABLE-BEGIN -->')
end = s.index('<!-- SEEDED-TABLE-END -->')
s = s[:begin] + '<!-- SEEDED-TABLE-BEGIN -->\n' + 'Current state (`tools/seeded.py rerun`, quick tier, default seed): ' + summary + \
    '.\n\n| id | round | needs, in order to manifest | caught as (first key printed) |\n|----|-------|-----------------------------|------------------------------|\n' + table + '\n' + s[end:]
open(os.path.join(VERIF, 'DESIGN.md'), 'w').write(s)
print(summary)
