#!/venv/bin/python
"""
Writes the prompt for one round of independent sub-agents (one per property) into <outdir>/<Cxx>/prompt.txt and
property.txt. A sub-agent gets the property text and a scratch worktree only - nothing from /verif. The only
information derived from earlier rounds is *under which conditions the earlier seeded changes manifest* (taken from
the earlier agents' own notes) and which files they touched, so that a new round looks elsewhere.

  tools/seed_prompts.py <round> <outdir> [--worktree-prefix /tmp/seed6-]
"""
import glob
import json
import os
import re
import sys

VERIF = os.path.dirname(os.path.dirname(os.path.abspath(__file__)))

BASE = """You are working in a scratch git worktree of the Python backtesting library mhallsmoore/qstrader at {wt} . Work ONLY inside {wt} and {out} ; never modify /repo, and do not read or touch anything under /verif. There is no network. Python is /venv/bin/python. Run the repository's own tests with:  cd {wt} && /venv/bin/python -m pytest -q -p no:cacheprovider   (151 tests). Check that qstrader is imported from the worktree:  cd {wt} && /venv/bin/python -c 'import qstrader; print(qstrader.__file__)'  (run python with the worktree as current directory; in scripts insert os.getcwd() at sys.path[0]).

Here is a semantic property the library is supposed to satisfy (also in {out}/property.txt):

{pid} - {title}

STATEMENT: {statement}

QUANTIFIED OVER: {quant}


TASK. Produce TWO independent, realistic source changes to the library code under qstrader/ (or examples/ if relevant; never the tests), each of which BREAKS this property while the code still imports and all 151 existing tests still pass. They must look like honest mistakes a maintainer could plausibly commit (an off-by-one, a wrong comparison operator, a reordered statement, a "simplification", an "optimisation" or cache, a refactor that loses a case, a sign/rounding slip ...) - no sabotage behind magic constants, environment variables or special dates. Strongly prefer changes that need something specific in order to manifest - a particular multi-step sequence of operations, an unusual input (a boundary instant, a flip through zero, a missing data row, a tie, ...), a fault at a particular point, or two cooperating sites that each look fine alone - rather than ones any ordinary use exposes at once. Make the two changes different in mechanism and, if possible, in the file they touch.

For each change k in {{a, b}} write into the directory {out}/k/ :
  - patch.diff : the output of `git diff` in the worktree; it must apply cleanly with `git apply` to a clean checkout of the worktree's HEAD.
  - demo.py : a small standalone program, run as  cd <checkout> && /venv/bin/python {out}/k/demo.py  (the checkout is the current directory; the script must put os.getcwd() first on sys.path so `import qstrader` picks up that checkout). It exits 0 and prints PASS when the property holds and exits 1 and prints FAIL plus a short explanation when it is broken. It must PASS on the unchanged worktree and FAIL with your patch applied. Use only the library's public API plus pandas/numpy/stdlib; create any CSV data it needs in a temp dir and remove that temp dir before exiting.
  - notes.md : what the change is, which clause of the property it breaks, what it needs in order to manifest (a section headed "What it needs in order to manifest"), and exactly what you ran to verify (commands and outcomes).
Verify all of this yourself: the 151 tests pass with the patch applied; demo.py FAILs with the patch and PASSes without it. Between the two changes restore the worktree with `git checkout -- .` and leave the worktree clean (no modifications) when you finish. Finish with a short summary of the two changes (3-6 lines each).


ADDITIONAL RULES FOR THIS ROUND (round {rnd}).
- NEVER use `git stash`; save your change with `git diff > file` and restore with `git checkout -- .` / `git apply file`.
- {n_prev} changes for this property already exist from earlier rounds; yours must use DIFFERENT mechanisms and different triggers. The earlier ones manifest under:
{prev}
- The earlier changes touched these files: {files}.
- Stay strictly inside the property's quantifier (documented, ordinary API usage; positive finite prices; UTC timestamps; whole-number quantities unless the property says real-valued) and do not rely on float rounding at an exact tie.
- An existing tester already: drives long random operation sequences and random markets/configurations against an independent model after every single call; re-uses every kind of object across calls and sessions; uses several portfolios, repeated order ids, library-generated order ids, optional constructor arguments, one or two data sources (also with different coverage), the data handler a session builds for itself from QSTRADER_CSV_DATA_DIR, other time zones, nanosecond instants, any start time of day, very large and very small amounts, integer-typed data, blank cells, repeated bars, dotted tickers, dicts in arbitrary key order; runs part of the cases with event printing on; drives the QuantTradingSystem / ExecutionHandler layer as well as the classes below it; inspects the clock and schedule a session holds and the instants it advances the broker through; compares repeated runs across interpreters and after tens of thousands of price lookups.
{focus}
Find what such a tester would STILL not exercise or not observe.
"""

FOCUS = {
    6: ("- THIS ROUND'S FOCUS: (i) effects that are small or delayed - a drift that needs many steps to become visible, "
        "a wrong value that is only read through one particular public getter / report / DataFrame column, or only after a particular "
        "LATER operation; (ii) interactions of two documented features that are each fine alone (for example burn-in x dynamic universe, "
        "signals x late-starting data, cash buffer x fees, subscriptions/withdrawals made DURING a session, several rebalances before the "
        "first fill, a universe that shrinks to empty and grows again); (iii) public functions and arguments used in README.md, docs/ or "
        "examples/ that differ from the most common call pattern. At least one of your two changes must be of kind (i) or (ii)."),
}


FOCUS[7] = ("- THIS ROUND'S FOCUS: maintenance refactors. At least one of your two changes must be the kind of edit made while MODERNISING or "
            "SPEEDING UP the code base rather than while changing behaviour on purpose: adapting to newer pandas / numpy idioms (frequency "
            "aliases, `.loc`/`.iloc`/`.at` changes, `concat`/`reindex`/`groupby` rewrites, copy-on-write, timezone handling, dtype choices), "
            "vectorising a Python loop, replacing `queue.Queue` by `collections.deque` or a list, a dict by `defaultdict`/`Counter`, string formatting "
            "by f-strings, manual loops by `sum`/`min`/`max`/`sorted`/comprehensions, adding `dataclass`/`__slots__`/`__eq__`/`__hash__`, adding type "
            "coercions (`int()`, `float()`, `round()`), hoisting an invariant out of a loop, merging duplicated branches, early returns, default "
            "arguments (beware mutable defaults), context managers, or making a class iterable/cached. The refactor must look behaviour-preserving "
            "to a reviewer and be so for the inputs the existing tests use.")


FOCUS[8] = ("- THIS ROUND'S FOCUS: the contract between the library and what a caller does with the objects it hands out or takes in. At least one "
            "of your two changes must be about one of: (i) returned containers - a getter that starts returning its internal dict / list / "
            "DataFrame / Series (or a cached one) instead of a fresh copy, or the reverse where callers relied on identity, so that a caller who "
            "mutates, sorts, extends, pops from or keeps the returned object changes later results; (ii) argument containers - the library "
            "keeping, sorting or mutating a dict / list / DataFrame the caller passed in and goes on using; (iii) return types and shapes - "
            "list vs tuple vs generator, float vs numpy scalar vs Decimal, Series vs DataFrame, index type or order, dict key order, None vs "
            "empty, that differ only in some branch; (iv) default values and argument handling - a changed default, a keyword made positional, "
            "an `or`-default swallowing a legitimate falsy value (0, 0.0, '', empty list), argument order in an internal call; (v) object "
            "protocol methods - `__eq__`, `__hash__`, `__repr__`, `__lt__`, `__iter__`, `__len__`, `__bool__`, `__copy__`/`__deepcopy__`, "
            "pickling - added or changed so that some existing comparison, `in` test, sort, set/dict membership, `if obj:` or copy behaves "
            "differently.")


FOCUS[9] = ("- THIS ROUND'S FOCUS: arithmetic and time semantics. At least one of your two changes must hinge on one of: (i) number handling - "
            "rounding mode (`round` half-even vs half-up vs `np.round` vs `Decimal`), `int()` vs `floor` vs `//` on negatives, accumulation order "
            "or a running total replacing a recomputed sum, `sum` vs `math.fsum`/`np.sum`, comparisons with a tolerance (`isclose`, `abs(x) < eps`) "
            "replacing exact ones or the reverse, `min`/`max`/`sorted` in the presence of NaN or equal keys, negative zero, integer vs float "
            "division, percent vs fraction, a sign convention, `abs()` in the wrong place, overflow of a fixed-width dtype; (ii) time handling - "
            "inclusive vs exclusive bounds, `<` vs `<=` at an instant that the workload really reaches, `.date()` / `.normalize()` / `.floor('D')` "
            "dropping or keeping the time zone or the time of day, comparisons between dates and timestamps, `Timedelta` arithmetic across "
            "weekends and month ends, frequency aliases, business-day offsets with n=0 vs n=1, 'same day' decided in UTC vs another zone, "
            "resolution (ns/us/s) of a Timestamp. Prefer a change whose effect is a SMALL numerical or one-period difference rather than an "
            "exception.")


FOCUS[10] = ("- THIS ROUND'S FOCUS: lifecycle and call order. At least one of your two changes must only show when public calls are made in "
             "an order, or at a point of an object's life, that differs from the one straight-line script: something queried BEFORE the first "
             "update / first bar / first rebalance / run(); a method called twice in a row or never; run() called a second time on the same "
             "session, or statistics requested between two runs; an object (broker, portfolio, data handler, signals, universe, schedule, sizer) "
             "created late (after the clock has moved), re-configured after first use (an attribute or `settings` value changed mid-way), or "
             "used by two owners at once (two sessions / two brokers / two portfolios sharing it); an operation that is legitimately a no-op "
             "(zero amount, empty order list, empty universe, zero-length range) followed by a normal one; initialisation done lazily on first "
             "use and therefore sensitive to WHICH call comes first; clean-up or reset code that runs at the end of one step and is skipped when "
             "that step raises or returns early.")


FOCUS[11] = ("- THIS ROUND'S FOCUS: error paths and validation. At least one of your two changes must live in code that decides whether to "
             "REFUSE something or what to do when something is MISSING: the order of validation checks relative to each other and to the first "
             "mutation; a check moved, merged, negated, widened or narrowed (`<` vs `<=`, `or` vs `and`, `is None` vs falsy, `isinstance` of a "
             "base vs derived class, `in dict` vs `dict.get`); an exception type or class hierarchy changed (`ValueError` vs `KeyError` vs a new "
             "custom exception, `except Exception` swallowing more than before, `raise` turned into a warning/log/return value); a NaN / None / "
             "empty-container guard that now also swallows a legitimate value or lets an illegitimate one through; a `try/except/finally` that "
             "changes which statements run after a failure; default fall-backs chosen when data are missing (previous value, zero, skip) so "
             "that the result is silently different rather than an error. The interesting cases are those where the VALID path is also "
             "affected for some inputs, or where the refusal happens but leaves something behind.")


FOCUS[12] = ("- THIS ROUND'S FOCUS: the shape of the data and the environment. At least one of your two changes must only show for particular "
             "(but valid, inside the quantifier) DATA SHAPES or ENVIRONMENTS, not for particular API calls: files with very few rows or a single "
             "row; gaps (market holidays, missing days) at particular places - first day, last day, the day of a rebalance, a month end; assets "
             "whose bars begin or end in the middle of the run; files of different lengths; extreme but legal magnitudes (sub-cent prices, "
             "prices in the millions, quantities or cash balances above 2**31 or 2**53, weights of 1e-9); one asset vs thirty; one-day runs vs "
             "runs of several years (thresholds: a branch taken only above N rows / N assets / N rebalances / N history entries; bounded "
             "caches; batch boundaries); values that collide (two assets with the same price, two fills at the same instant, equal weights, "
             "equal dates in two files); and the environment: the machine's time zone and locale, pandas / numpy options and versions' "
             "defaults, environment variables, the working directory, dict / set / os.listdir ordering, the interpreter's hash seed, what "
             "was imported or configured earlier in the process (logging, warnings filters, matplotlib backend).")

FOCUS[13] = ("- THIS ROUND'S FOCUS: ONE change only (directory `a`; ignore `b`), finished within about 8 minutes - keep it small. It must be a "
             "change made of TWO cooperating edits that each look harmless alone (for example a value cached / memoised in one place and an "
             "invalidation forgotten in another; a default changed in one class and relied on in a second; a helper made to return a rounded / "
             "sorted / de-duplicated / truncated result while one caller needs the raw one; a loop turned into a comprehension that drops the "
             "last / first / repeated element; state kept on the class instead of the instance), and it must need a MULTI-STEP history to "
             "manifest: at least three public operations of different kinds, or a backtest of at least two rebalances, where the first "
             "occurrences are all still right.")


def rnd_of(i):
    m = re.search(r'-r(\d+)$', i)
    return int(m.group(1)) if m else 1


def main():
    rnd = int(sys.argv[1])
    outdir = sys.argv[2]
    prefix = '/tmp/seed%d-' % rnd
    if '--worktree-prefix' in sys.argv:
        prefix = sys.argv[sys.argv.index('--worktree-prefix') + 1]
    props = [json.loads(l) for l in open(os.path.join(VERIF, 'properties.jsonl'))]
    for p in props:
        pid = p['id']
        prev, files = [], set()
        for mp in sorted(glob.glob(os.path.join(VERIF, 'seeded', pid + '-*', 'meta.json'))):
            m = json.load(open(mp))
            if rnd_of(m['id']) >= rnd:
                continue
            need = re.sub(r'\s+', ' ', m.get('needs_to_manifest', ''))[:260]
            prev.append(need)
            pf = os.path.join(os.path.dirname(mp), 'patch.diff')
            for l in open(pf):
                mm = re.match(r'^\+\+\+ b/(\S+)', l)
                if mm:
                    files.add(mm.group(1))
        out = os.path.join(outdir, pid)
        os.makedirs(out, exist_ok=True)
        text = BASE.format(wt=prefix + pid, out=out, pid=pid, title=p['title'], statement=p['statement'],
                           quant=p['quantifier']['text'], rnd=rnd, n_prev=len(prev),
                           prev='\n'.join('   (%d) %s' % (i + 1, x) for i, x in enumerate(prev)),
                           files=', '.join(sorted(files)), focus=FOCUS.get(rnd, ''))
        open(os.path.join(out, 'prompt.txt'), 'w').write(text)
        open(os.path.join(out, 'property.txt'), 'w').write('%s - %s\n\nSTATEMENT: %s\n\nQUANTIFIED OVER: %s\n' % (
            pid, p['title'], p['statement'], p['quantifier']['text']))
    print('wrote %d prompts under %s' % (len(props), outdir))


if __name__ == '__main__':
    main()
