#!/bin/bash
# Runs /repo's own test suite with the qsmon always-on monitors attached (false-alarm screen, DESIGN.md 2.4).
cd "${QSMON_REPO:-/repo}" && PYTHONDONTWRITEBYTECODE=1 PYTHONPATH=/verif:/verif/.deps \
  /venv/bin/python -m pytest -q -p no:cacheprovider -p qsmon.pytest_plugin --timeout=900 "$@"
