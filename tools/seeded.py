#!/venv/bin/python
"""
Confirm and evaluate a seeded breaking change produced by an independent sub-agent.

  tools/seeded.py add <srcdir> <seed-id> <Cxx> [--also Cyy ...] [--tier quick] [--seed N]
      srcdir holds patch.diff, demo.py, notes.md. In a scratch worktree of /repo (outside /repo and /verif):
        1. demo.py must PASS (exit 0) on the unchanged tree,
        2. patch applies, the repo's 151 tests still pass, demo.py must FAIL (exit 1),
        3. the registered check(s) are run against the patched copy (QSMON_REPO) and the verdict recorded.
      If 1-2 hold the change is kept under /verif/seeded/<seed-id>/ with meta.json.
  tools/seeded.py rerun [seed-id ...] [--tier quick]
      re-evaluate kept changes with the current checks and update their meta.json ('checks' section).
"""
import argparse
import json
import os
import shutil
import subprocess
import sys

VERIF = os.path.dirname(os.path.dirname(os.path.abspath(__file__)))
sys.path.insert(0, os.path.join(VERIF, 'tools'))
import selftest  # noqa


def run_demo(repo, demo):
    p = subprocess.run(['/venv/bin/python', demo], cwd=repo, stdout=subprocess.PIPE, stderr=subprocess.STDOUT,
                       env=dict(os.environ, PYTHONDONTWRITEBYTECODE='1', MPLBACKEND='Agg'), timeout=900)
    out = p.stdout.decode(errors='replace').strip().splitlines()
    return p.returncode, (out[-1][:300] if out else '')


def evaluate(patch, props, tier, seed):
    import tempfile
    evdir = tempfile.mkdtemp(prefix='qsmon-seed-ev-')
    res = {}
    d = selftest.make_copy()
    try:
        repo = os.path.join(d, 'repo')
        subprocess.run(['git', '-C', repo, 'apply', patch], check=True)
        for prop in props:
            rc, keys, out, secs = selftest.run_check(repo, prop, tier, evdir, seed)
            res[prop] = {'tier': tier, 'exit': rc, 'verdict': {0: 'missed', 1: 'caught', 2: 'inconclusive'}.get(rc, str(rc)),
                         'keys': [k[:300] for k in keys[:4]], 'seconds': round(secs, 1)}
            print('   check %s %s -> %s %s' % (prop, tier, res[prop]['verdict'], keys[0][:160] if keys else ''))
    finally:
        selftest.drop_copy(d)
        shutil.rmtree(evdir, ignore_errors=True)
    return res


def add(a):
    src = os.path.abspath(a.src)
    patch, demo = os.path.join(src, 'patch.diff'), os.path.join(src, 'demo.py')
    ran = []
    d = selftest.make_copy()
    try:
        repo = os.path.join(d, 'repo')
        rc0, tail0 = run_demo(repo, demo)
        ran.append({'cmd': 'demo.py on unchanged tree', 'exit': rc0, 'last_line': tail0})
        ap = subprocess.run(['git', '-C', repo, 'apply', patch], stdout=subprocess.PIPE, stderr=subprocess.STDOUT)
        ran.append({'cmd': 'git apply patch.diff', 'exit': ap.returncode})
        ok_tests, tail = selftest.run_tests(repo)
        ran.append({'cmd': 'pytest (151 repo tests) on patched tree', 'pass': ok_tests, 'last_line': tail})
        rc1, tail1 = run_demo(repo, demo)
        ran.append({'cmd': 'demo.py on patched tree', 'exit': rc1, 'last_line': tail1})
    finally:
        selftest.drop_copy(d)
    confirmed = rc0 == 0 and ap.returncode == 0 and ok_tests and rc1 == 1
    print('%s: demo clean=%s patched=%s tests=%s -> %s' % (a.id, rc0, rc1, ok_tests, 'CONFIRMED' if confirmed else 'REJECTED'))
    if not confirmed:
        for r in ran:
            print('   ', r)
        return 1
    checks = evaluate(patch, [a.prop] + list(a.also or []), a.tier, a.seed)
    dst = os.path.join(VERIF, 'seeded', a.id)
    os.makedirs(dst, exist_ok=True)
    for f in ('patch.diff', 'demo.py', 'notes.md'):
        if os.path.exists(os.path.join(src, f)):
            shutil.copy(os.path.join(src, f), os.path.join(dst, f))
    notes = open(os.path.join(src, 'notes.md')).read() if os.path.exists(os.path.join(src, 'notes.md')) else ''
    meta = {'id': a.id, 'property': a.prop, 'origin': 'independent sub-agent given only the property text and a scratch worktree',
            'needs_to_manifest': a.needs or '(see notes.md)', 'confirmed_by': ran, 'checks': checks}
    with open(os.path.join(dst, 'meta.json'), 'w') as f:
        json.dump(meta, f, indent=1)
    return 0


def rerun(a):
    base = os.path.join(VERIF, 'seeded')
    ids = a.ids or sorted(os.listdir(base))
    for i in ids:
        mp = os.path.join(base, i, 'meta.json')
        if not os.path.exists(mp):
            continue
        meta = json.load(open(mp))
        if meta.get('superseded'):
            print(i, '(superseded, skipped)')
            continue
        props = sorted(set([meta['property']] + list(meta.get('checks', {}).keys()) + list(a.also or [])))
        print(i)
        meta['checks'] = evaluate(os.path.join(base, i, 'patch.diff'), props, a.tier, a.seed)
        json.dump(meta, open(mp, 'w'), indent=1)
    return 0


def main():
    ap = argparse.ArgumentParser()
    sub = ap.add_subparsers(dest='mode')
    p1 = sub.add_parser('add')
    p1.add_argument('src'); p1.add_argument('id'); p1.add_argument('prop')
    p1.add_argument('--also', nargs='*'); p1.add_argument('--tier', default='quick'); p1.add_argument('--seed', default=None)
    p1.add_argument('--needs', default=None)
    p2 = sub.add_parser('rerun')
    p2.add_argument('ids', nargs='*'); p2.add_argument('--tier', default='quick'); p2.add_argument('--seed', default=None)
    p2.add_argument('--also', nargs='*')
    a = ap.parse_args()
    return add(a) if a.mode == 'add' else rerun(a)


if __name__ == '__main__':
    sys.exit(main())
