#!/bin/bash
# tools/sweep.sh <tier> <seed...> : run every check for the given seeds; print only non-"held" lines
cd "$(dirname "$0")/.."
tier=$1; shift
for s in "$@"; do
  for i in $(seq -w 1 19); do
    out=$(VERIF_SEED=$s ./check C$i $tier 2>&1); rc=$?
    if [ $rc -ne 0 ] || echo "$out" | grep -q "KNOWN-FINDING\|VIOLATION\|INCONCLUSIVE"; then
      echo "== seed=$s C$i rc=$rc"; echo "$out" | cut -c1-700 | head -12
    fi
  done
  echo "seed $s done"
done
