"""
W-DATA: random CSV daily-bar datasets and point-in-time queries (C06).

The oracle is computed from the rows the harness wrote (csv text -> Python
floats -> Fractions); it never touches pandas or qstrader.
"""
import datetime as dt
import json
import math
import os
import random
import shutil
import tempfile
import zlib
import time
from fractions import Fraction

import numpy as np
import pandas as pd

from qsmon import cal, core
from qsmon.core import F, Violation

HEADER = 'Date,Open,High,Low,Close,Adj Close,Volume'
US = dt.timedelta(microseconds=1)


def fmt(v, as_int=False):
    if v is None:
        return ''
    if as_int and float(v) == int(v):
        return str(int(v))
    return repr(float(v))


def write_csv(path, rows, order, with_adj=True, int_opens=False, cols=None, date_style='iso', int_closes=False, header_style=None):
    """rows: list of dict(date, open, close, adj). order: permutation of row indexes. cols: order of the columns after
    Date (vendors differ); date_style 'mdy' writes 2/1/2019 instead of 2019-02-01."""
    names = ['Open', 'High', 'Low', 'Close'] + (['Adj Close'] if with_adj else []) + ['Volume']
    if cols:
        names = [c for c in cols if c in names] + [c for c in names if c not in cols]
    # vendors' exports differ in the first line too: a UTF-8 byte order mark (spreadsheet exports), quoted column names
    style = header_style if header_style is not None else ('plain', 'plain', 'plain', 'bom', 'quoted')[
        zlib.crc32(('%s|%d' % (os.path.basename(path), len(rows))).encode()) % 5]
    with open(path, 'w', encoding='utf-8-sig' if style == 'bom' else 'utf-8') as f:
        f.write(','.join(('"%s"' % c if style == 'quoted' else c) for c in ['Date'] + names))
        f.write('\n')
        for i in order:
            r = rows[i]
            hi = max([x for x in (r['open'], r['close']) if x is not None] or [1.0]) + 1.0
            lo = max(0.001, min([x for x in (r['open'], r['close']) if x is not None] or [1.0]) - 0.5)
            cell = {'Open': fmt(r['open'], int_opens), 'High': fmt(hi), 'Low': fmt(lo), 'Close': fmt(r['close'], int_closes),
                    'Adj Close': fmt(r['adj'], int_closes), 'Volume': str(r.get('volume', 0 if i % 7 == 3 else 1000 + i))}     # days without a trade still have a bar
            d_ = r['date']
            if date_style == 'mdy':
                y_, m_, dd_ = d_.split('-')
                d_ = '%d/%d/%s' % (int(m_), int(dd_), y_)
            f.write(','.join([d_] + [cell[c] for c in names]) + '\n')


def gen_rows(rng, used, n=None, start=None, huge=False):
    n = n if n is not None else rng.choice([1, 1, 2, 3, 5, 8, 13, 20, 40])
    d = start or (dt.date(1995, 1, 1) + dt.timedelta(days=rng.randint(0, 12700)))
    rows = []
    nan_p = rng.choice([0.0, 0.0, 0.1, 0.3])
    stale = rng.random() < 0.25
    base = 10 ** rng.uniform(0, 3)
    if huge:
        base = 4.0e9                     # quotes in a small-denomination currency: integer-typed columns come close to 2**63 when multiplied
    for i in range(n):
        def val():
            for _ in range(100):
                v = round(base * rng.uniform(0.5, 1.5), 4)
                if v not in used and v > 0:
                    used.add(v)
                    return v
            raise RuntimeError('no unique value')
        o, c = val(), val()
        ratio = rng.choice([1.0, 1.0, 0.5, rng.uniform(0.2, 1.1), 0.999992, 1.000004])     # also a tiny distribution
        a = round(c * ratio, 4) if ratio != 1.0 else c
        if a in used and a != c:
            a = val()
        used.add(a)
        if rng.random() < nan_p:
            o = None
        if rng.random() < nan_p:
            c = None
            a = None       # a missing raw Close always comes with a missing Adj Close (see DESIGN.md C06 limits)
        elif rng.random() < nan_p / 2:
            a = None       # Adj Close blank on its own: with adjustment on, that bar has no adjusted open/close
        row = {'date': d.isoformat(), 'open': o, 'close': c, 'adj': a}
        if stale and rows and rng.random() < 0.25:
            # an untraded day: the vendor repeats an earlier bar in every column (volume included)
            k = rng.randrange(len(rows))
            row = dict(rows[k], date=d.isoformat(), volume=rows[k].get('volume', 1000 + k))
        rows.append(row)
        d = d + dt.timedelta(days=rng.choice([1, 1, 1, 1, 2, 3, 3, 4, 7, 10, 30]))
    return rows


def events(rows, adjust):
    """Time-ordered (instant, value-or-None, row date, field) with forward fill applied."""
    ev = []
    for r in sorted(rows, key=lambda r: r['date']):
        d = dt.date.fromisoformat(r['date'])
        if adjust:
            if r['open'] is None or r['close'] is None or r['adj'] is None or r['close'] == 0:
                o = None
            else:
                o = F(r['adj']) / F(r['close']) * F(r['open'])
            c = None if r['adj'] is None else F(r['adj'])
        else:
            o = None if r['open'] is None else F(r['open'])
            c = None if r['close'] is None else F(r['close'])
        ev.append([cal.at(d, cal.OPEN), o, r['date'], 'open'])
        ev.append([cal.at(d, cal.CLOSE), c, r['date'], 'close'])
    last = None
    src = None
    for e in ev:
        if e[1] is None:
            e[1] = last
            e.append(src)
        else:
            last = e[1]
            src = (e[2], e[3])
            e.append(src)
    return ev


def expected(ev, t):
    """Value of the last event at or before t (None = NaN)."""
    lo, hi = 0, len(ev)
    while lo < hi:
        mid = (lo + hi) // 2
        if ev[mid][0] <= t:
            lo = mid + 1
        else:
            hi = mid
    if lo == 0:
        return None, None
    return ev[lo - 1][1], ev[lo - 1]


def instants(rng, ev, thorough=False):
    """One instant in every equivalence class of the answer + both sides of every boundary."""
    out = []
    first, last = ev[0][0], ev[-1][0]
    out += [first - US, first - dt.timedelta(days=1), first - dt.timedelta(days=400),
            cal.at(first.date(), dt.time(0, 0)), last + US, last + dt.timedelta(days=3),
            last + dt.timedelta(days=2000)]
    for i, e in enumerate(ev):
        out += [e[0] - US, e[0], e[0] + US]
        nxt = ev[i + 1][0] if i + 1 < len(ev) else e[0] + dt.timedelta(days=2)
        gap = (nxt - e[0])
        out.append(e[0] + gap / 2)
        if gap > dt.timedelta(days=1) and rng.random() < 0.5:
            out.append(e[0] + dt.timedelta(days=1))
    rng.shuffle(out)
    return out


def tstamp(t):
    return pd.Timestamp(t)


def isnan(x):
    try:
        return x != x
    except Exception:
        return False


class Dataset(object):
    """One directory of CSV files (+ a row-shuffled twin) and the real data sources over them."""

    def __init__(self, rng, spec=None, reuse_dir=None):
        self.rng = rng
        # directory names are free text too: brackets, a question mark, a blank
        self.dir = reuse_dir or tempfile.mkdtemp(prefix=rng.choice(['qsmon-data-', 'qsmon-data-', 'qsmon-data-', 'qsmon [data]-', 'qsmon-d?ta-']))
        self.own_dir = reuse_dir is None
        if reuse_dir is not None:
            for f in os.listdir(reuse_dir):
                os.remove(os.path.join(reuse_dir, f))
        self.dir2 = tempfile.mkdtemp(prefix='qsmon-data-')
        used = set()
        if spec is None:
            nsym = rng.choice([1, 1, 2, 3])
            spec = {'adjust': rng.random() < 0.6, 'files': {}}
            base = dt.date(1995, 1, 1) + dt.timedelta(days=rng.randint(0, 12700))
            if rng.random() < 0.12:
                base = dt.date(1958, 1, 1) + dt.timedelta(days=rng.randint(0, 4300))      # long histories: before the Unix epoch
            twin_calendar = nsym >= 2 and rng.random() < 0.3
            int_opens = rng.random() < 0.2
            huge = rng.random() < 0.05               # whole-number quotes of a few billion in every price column
            dotted = rng.random() < 0.3
            lower = (not dotted) and rng.random() < 0.2
            cols = None
            if rng.random() < 0.3:
                cols = ['Open', 'High', 'Low', 'Close', 'Adj Close', 'Volume']
                rng.shuffle(cols)                             # e.g. Date,Close,Volume,Open,High,Low
            spec['cols'] = cols
            spec['date_style'] = 'mdy' if rng.random() < 0.15 else 'iso'
            spec['int_closes'] = (not int_opens) and rng.random() < 0.15
            for s in range(nsym):
                sym = 'S%d' % s
                if dotted and s == nsym - 1:
                    sym = 'S0.L' if nsym > 1 else 'BRK.B'      # exchange-suffixed / share-class tickers
                if lower:
                    sym = ['tip', 'tips', 'gs'][s]            # lower-case file names, also ending in c / s / v
                start = base + dt.timedelta(days=rng.choice([0, 0, 3, 17, 90]))
                rows = gen_rows(rng, used, start=start, huge=huge)
                if twin_calendar and s > 0:
                    # same first date, last date and row count as S0, but other days in between
                    ref = list(spec['files'].values())[0]['rows']
                    if len(ref) >= 3:
                        d0, d1 = dt.date.fromisoformat(ref[0]['date']), dt.date.fromisoformat(ref[-1]['date'])
                        inner = [d0 + dt.timedelta(days=k) for k in range(1, (d1 - d0).days)]
                        if len(inner) >= len(ref) - 2:
                            days = [d0] + sorted(rng.sample(inner, len(ref) - 2)) + [d1]
                            rows = gen_rows(rng, used, n=len(ref), start=d0)
                            for r, d in zip(rows, days):
                                r['date'] = d.isoformat()
                if huge:
                    int_opens = True
                    spec['int_closes'] = True
                    spec['adjust'] = spec['adjust'] or rng.random() < 0.7
                if int_opens:
                    for r in rows:
                        if r['open'] is not None:
                            r['open'] = float(int(r['open']) + 1)      # whole-number opens (written without '.0')
                if spec['int_closes']:
                    for r in rows:                                      # whole-number closes, fractional opens
                        if r['close'] is not None:
                            r['close'] = float(int(r['close']) + 1)
                            if r['adj'] is not None:
                                r['adj'] = r['close'] if not spec['adjust'] else float(int(r['adj']) + 1)
                order = list(range(len(rows)))
                if rng.random() < 0.7:
                    rng.shuffle(order)
                spec['files'][sym] = {'rows': rows, 'order': order, 'int_opens': int_opens}
        self.spec = spec
        self.adjust = spec['adjust']
        style = dict(cols=spec.get('cols'), date_style=spec.get('date_style', 'iso'), int_closes=spec.get('int_closes', False))
        for sym, f in spec['files'].items():
            write_csv(os.path.join(self.dir, sym + '.csv'), f['rows'], f['order'], int_opens=f.get('int_opens', False), **style)
            rev = list(reversed(sorted(range(len(f['rows'])), key=lambda i: f['rows'][i]['date'])))
            write_csv(os.path.join(self.dir2, sym + '.csv'), f['rows'], rev, int_opens=f.get('int_opens', False), **style)
        self.ev = {'EQ:' + sym: events(f['rows'], self.adjust) for sym, f in spec['files'].items()}

    def close(self):
        if self.own_dir:
            shutil.rmtree(self.dir, ignore_errors=True)
        shutil.rmtree(self.dir2, ignore_errors=True)

    def shape(self):
        out = []
        for sym, f in sorted(self.spec['files'].items()):
            rows = sorted(f['rows'], key=lambda r: r['date'])
            gaps = tuple((dt.date.fromisoformat(b['date']) - dt.date.fromisoformat(a['date'])).days
                         for a, b in zip(rows, rows[1:]))
            mask = tuple((r['open'] is None, r['close'] is None) for r in rows)
            out.append((gaps, mask, f['order'] != sorted(f['order'])))
        return (self.adjust, tuple(out))

    def nontrivial(self):
        for sym, f in self.spec['files'].items():
            rows = sorted(f['rows'], key=lambda r: r['date'])
            gap = any((dt.date.fromisoformat(b['date']) - dt.date.fromisoformat(a['date'])).days > 1
                      for a, b in zip(rows, rows[1:]))
            nan = any(r['open'] is None or r['close'] is None for r in rows)
            shuffled = f['order'] != sorted(f['order'], key=lambda i: f['rows'][i]['date'])
            if gap and nan and shuffled:
                return True
        return False


def decode(ev_all, value, asset):
    """Which event (of any asset) does a returned number come from?"""
    best = None
    if value is None or value != value:
        return None, None
    for a, ev in ev_all.items():
        for e in ev:
            if e[1] is not None and abs(F(value) - e[1]) <= Fraction(1, 10 ** 9) * (abs(e[1]) + 1):
                if a == asset:
                    return a, e
                best = (a, e)
    return best if best else (None, None)


def check_answer(ds, asset, t, got, what, acc, prop='C06'):
    want, e = expected(ds.ev[asset], t)
    acc.count('C06:queries_checked')
    cls = 'before-first-bar' if e is None else ('in-bar' if e[3] == 'open' else 'after-close')
    acc.see('C06:query_classes', cls + ('/filled' if e is not None and e[4] != (e[2], e[3]) else ''))
    case = {'asset': asset, 't': str(t), 'api': what}
    if want is None:
        if not isnan(got):
            a2, e2 = decode(ds.ev, got, asset)
            where = 'the %s of the bar dated %s' % (e2[3], e2[2]) if e2 else 'no cell of the file'
            key = 'no-bar-yet/%s' % ('future-value' if e2 is not None and e2[0] > t else 'value')
            raise Violation(prop, key,
                            '%s(%s, %s) returned %r (%s) although no bar %s' % (
                                what, t, asset, got, where,
                                'has opened at or before t' if e is None else 'value is available yet (leading cells missing)'),
                            dict(case, got=got, decoded=where))
        return
    if isnan(got) or not core.close(got, want, abs(want), rel=1e-12):
        a2, e2 = (None, None) if isnan(got) else decode(ds.ev, got, asset)
        if e2 is not None and e2[0] > t:
            key = 'future-value'
        elif isnan(got):
            key = 'nan-for-known-price'
        else:
            key = 'wrong-value'
        where = ('the %s of the bar dated %s%s' % (e2[3], e2[2], '' if a2 == asset else ' of ' + a2)) if e2 else 'no cell of the file'
        raise Violation(prop, '%s/%s' % (key, cls),
                        '%s(%s, %s) returned %r = %s; point-in-time answer is %r (the %s of the bar dated %s)'
                        % (what, t, asset, got, where, float(want), e[4][1], e[4][0]),
                        dict(case, got=got, want=float(want), decoded=where))
    if e[0] > t:
        raise Violation(prop, 'oracle-bug', 'internal: expected event later than t')


def check_historical_closes(ds, src, acc, rng):
    """get_assets_historical_closes(start, end, assets): the raw closes of exactly the bars dated within [start, end]."""
    assets = sorted(ds.ev)
    cells = {}
    for sym, f in ds.spec['files'].items():
        for r in f['rows']:
            if r['close'] is not None:
                cells[('EQ:' + sym, r['date'])] = r['close']
    dates = sorted({d for _, d in cells})
    if not dates:
        return
    d_lo, d_hi = dt.date.fromisoformat(dates[0]), dt.date.fromisoformat(dates[-1])
    for _ in range(4):
        a_ = d_lo + dt.timedelta(days=rng.randint(-3, max(0, (d_hi - d_lo).days)))
        b_ = a_ + dt.timedelta(days=rng.randint(0, max(1, (d_hi - a_).days + 3)))
        start = cal.at(a_, dt.time(rng.choice([0, 0, 14]), rng.choice([0, 30])))
        end = cal.at(b_, dt.time(rng.choice([0, 14, 21, 23]), rng.choice([0, 30, 59])))
        if end < start:
            continue
        ask = rng.sample(assets, rng.randint(1, len(assets)))
        try:
            df = src.get_assets_historical_closes(tstamp(start), tstamp(end), ask)
        except Exception as e:
            if core.from_repo(e):
                raise Violation('C06', 'historical-closes-raised/%s' % type(e).__name__, 'get_assets_historical_closes(%s, %s, %s) '
                                'raised %r' % (start, end, ask, e), {'start': str(start), 'end': str(end)})
            raise
        got = {}
        for ts_, row in df.iterrows():
            for a2 in df.columns:
                v = row[a2]
                if v == v:
                    got[(a2, pd.Timestamp(ts_).tz_convert('UTC').date().isoformat())] = float(v)
        want = {k: v for k, v in cells.items() if k[0] in ask and
                start <= cal.at(dt.date.fromisoformat(k[1]), dt.time(0, 0)) <= end}
        if got != want:
            extra = sorted(k for k in got if k not in want)
            late = [k for k in extra if cal.at(dt.date.fromisoformat(k[1]), dt.time(0, 0)) > end]
            key = 'historical-closes/after-the-end' if late else 'historical-closes/wrong-rows'
            raise Violation('C06', key, 'get_assets_historical_closes(%s, %s, %s): rows %s not expected, rows %s missing, %d values differ'
                            % (start, end, ask, extra[:3], sorted(k for k in want if k not in got)[:3],
                               sum(1 for k in want if k in got and got[k] != want[k])), {'start': str(start), 'end': str(end)})
        acc.count('C06:historical_close_ranges_checked')


def run_dataset(ds, acc, rng, n_extra=0):
    import warnings
    with warnings.catch_warnings():
        return _run_dataset(ds, acc, rng, n_extra)


def _run_dataset(ds, acc, rng, n_extra=0):
    from qstrader.data.daily_bar_csv import CSVDailyBarDataSource
    from qstrader.data.backtest_data_handler import BacktestDataHandler
    if rng.random() < 0.4:
        # another data source over the same files with the other price-adjustment setting, built (and used) first
        other = CSVDailyBarDataSource(ds.dir, None, adjust_prices=not ds.adjust)
        for asset in list(ds.ev)[:2]:
            other.get_bid(tstamp(ds.ev[asset][-1][0]), asset) if ds.ev[asset] else None
        acc.count('C06:datasets_after_a_source_with_the_other_adjustment')
    with core.loud(len(ds.ev) % 2 == 0 and rng.random() < 0.3):
        src = CSVDailyBarDataSource(ds.dir, None, adjust_prices=ds.adjust)
    check_historical_closes(ds, src, acc, rng)
    src2 = CSVDailyBarDataSource(ds.dir2, None, adjust_prices=ds.adjust)
    if rng.random() < 0.3:
        # a copy of the source object (what a job queue / multiprocessing does through the pickle protocol) answers like the
        # original; the sources may be handed to the handler in any iterable
        import copy
        src = copy.deepcopy(src) if rng.random() < 0.5 else copy.copy(src)
        acc.count('C06:datasets_read_through_a_copied_source')
        handler = BacktestDataHandler(None, data_sources=(src,))
    elif rng.random() < 0.3:
        # the handler first served another feed (same tickers, other prices) and was then pointed at this one:
        # handler.data_sources is a plain public attribute
        class OtherFeed(object):
            def get_bid(self, dt_, asset_):
                return src2.get_bid(dt_, asset_) * 2.0 + 1.0

            def get_ask(self, dt_, asset_):
                return src2.get_ask(dt_, asset_) * 2.0 + 1.0
        handler = BacktestDataHandler(None, data_sources=[OtherFeed()])
        for asset in list(ds.ev)[:3]:
            if ds.ev[asset]:
                handler.get_asset_latest_bid_price(tstamp(ds.ev[asset][-1][0]), asset)
                handler.get_asset_latest_ask_price(tstamp(ds.ev[asset][0][0]), asset)
        handler.data_sources = [src]
        acc.count('C06:handlers_repointed_after_first_use')
    else:
        handler = BacktestDataHandler(None, data_sources=[src])

    class Quoted(object):
        """A user's data source with a bid/ask spread around the CSV source's price (the handler only needs get_bid/get_ask)."""
        def get_bid(self, dt_, asset_):
            return src.get_bid(dt_, asset_)

        def get_ask(self, dt_, asset_):
            return src.get_bid(dt_, asset_) * 1.25 + 0.5
    spread_handler = BacktestDataHandler(None, data_sources=[Quoted()])
    if len(ds.ev) % 2 == 1 and rng.random() < 0.5:
        # from here on (the files are loaded, only questions follow) the host program escalates warnings to errors
        import warnings
        warnings.simplefilter('error')
        acc.count('C06:datasets_queried_with_warnings_escalated_to_errors')
    acc.count('C06:datasets')
    for asset, ev in ds.ev.items():
        for t in instants(rng, ev):
            ts = tstamp(t)
            bid = src.get_bid(ts, asset)
            check_answer(ds, asset, t, bid, 'get_bid', acc)
            ask = src.get_ask(ts, asset)
            check_answer(ds, asset, t, ask, 'get_ask', acc)
            # row order in the file must not matter
            b2 = src2.get_bid(ts, asset)
            if not (isnan(b2) and isnan(bid)) and b2 != bid:
                raise Violation('C06', 'row-order-dependence', 'get_bid(%s, %s) = %r from the file as written but %r '
                                'from the same rows in reverse order' % (t, asset, bid, b2),
                                {'asset': asset, 't': str(t)})
            acc.count('C06:row_order_checks')
            # the handler agrees with the source
            hb = handler.get_asset_latest_bid_price(ts, asset)
            ha = handler.get_asset_latest_ask_price(ts, asset)
            hba = handler.get_asset_latest_bid_ask_price(ts, asset)
            hm = handler.get_asset_latest_mid_price(ts, asset)
            check_answer(ds, asset, t, hb, 'handler.bid', acc)
            check_answer(ds, asset, t, ha, 'handler.ask', acc)
            check_answer(ds, asset, t, hba[0], 'handler.bid_ask[0]', acc)
            check_answer(ds, asset, t, hba[1], 'handler.bid_ask[1]', acc)
            check_answer(ds, asset, t, hm, 'handler.mid', acc)
            acc.count('C06:handler_checks')
            # a source whose ask differs from its bid: the handler's ask is that source's ask, its bid that source's bid
            sb, sa = spread_handler.get_asset_latest_bid_price(ts, asset), spread_handler.get_asset_latest_ask_price(ts, asset)
            check_answer(ds, asset, t, sb, 'handler[spread source].bid', acc)
            if not (isnan(sb) and isnan(sa)) and not core.close(sa, F(sb) * F(1.25) + F(0.5), abs(sb) + 1, rel=1e-12):
                raise Violation('C06', 'handler-ask-is-not-the-source-ask', 'a data source quotes %s at %s bid %r / ask %r; the handler '
                                'returns ask %r' % (asset, t, sb, sb * 1.25 + 0.5, sa), {'asset': asset, 't': str(t)})
            # pandas timestamps carry nanoseconds: one nanosecond after t answers like t, one before like t - 1us
            if acc.counters['C06:handler_checks'] % 4 == 1:
                after_ns = ts + pd.Timedelta(nanoseconds=1)
                before_ns = ts - pd.Timedelta(nanoseconds=1)
                check_answer(ds, asset, t, src.get_bid(after_ns, asset), 'get_bid[t+1ns]', acc)
                check_answer(ds, asset, t, handler.get_asset_latest_mid_price(after_ns, asset), 'handler.mid[t+1ns]', acc)
                check_answer(ds, asset, t - US, src.get_ask(before_ns, asset), 'get_ask[t-1ns]', acc)
                check_answer(ds, asset, t - US, handler.get_asset_latest_bid_price(before_ns, asset), 'handler.bid[t-1ns]', acc)
                acc.count('C06:nanosecond_checks')
            # an instant is an instant: the same query expressed in another time zone gives the same answer
            if acc.counters['C06:handler_checks'] % 3 == 0:
                for zone in ('Asia/Tokyo', 'America/New_York', 'Asia/Kolkata'):
                    tz_ts = ts.tz_convert(zone)
                    check_answer(ds, asset, t, handler.get_asset_latest_bid_price(tz_ts, asset), 'handler.bid[%s]' % zone, acc)
                    check_answer(ds, asset, t, handler.get_asset_latest_mid_price(tz_ts, asset), 'handler.mid[%s]' % zone, acc)
                    check_answer(ds, asset, t, src.get_ask(tz_ts, asset), 'get_ask[%s]' % zone, acc)
                    acc.count('C06:other_timezone_checks')
    acc.count('C06:lru_hits', src.get_bid.cache_info().hits if hasattr(src.get_bid, 'cache_info') else 0)


def run_multi_source(ds_a, ds_b, acc, rng):
    """Handler over two sources: first non-NaN source value wins."""
    from qstrader.data.daily_bar_csv import CSVDailyBarDataSource
    from qstrader.data.backtest_data_handler import BacktestDataHandler
    sa = CSVDailyBarDataSource(ds_a.dir, None, adjust_prices=ds_a.adjust)
    sb = CSVDailyBarDataSource(ds_b.dir, None, adjust_prices=ds_b.adjust)
    handler = BacktestDataHandler(None, data_sources=[sa, sb])
    assets = sorted(set(ds_a.ev) | set(ds_b.ev))
    for asset in assets:
        ev_list = [d.ev[asset] for d in (ds_a, ds_b) if asset in d.ev]
        inst = []
        for ev in ev_list:
            inst += instants(rng, ev)
        for t in inst:
            want = None
            for d in (ds_a, ds_b):
                if asset in d.ev:
                    w, e = expected(d.ev[asset], t)
                    if w is not None:
                        want = w
                        break
            which = rng.choice(['bid', 'ask', 'mid'])
            got = getattr(handler, 'get_asset_latest_%s_price' % which)(tstamp(t), asset)
            acc.count('C06:multi_source_checks')
            acc.count('C06:multi_source_checks_' + which)
            if want is None:
                if not isnan(got):
                    raise Violation('C06', 'multi-source/no-bar-yet', 'handler over two sources returned %r for %s at %s '
                                    'although neither has a bar yet' % (got, asset, t), {'asset': asset, 't': str(t)})
            elif isnan(got) or not core.close(got, want, abs(want), rel=1e-12):
                raise Violation('C06', 'multi-source/wrong-value', 'handler over two sources returned %r for %s at %s, '
                                'first available source value is %r' % (got, asset, t, float(want)),
                                {'asset': asset, 't': str(t)})


def run_session_default_handler(ds, acc, rng):
    """The data handler a trading session builds for itself (no data_handler argument, $QSTRADER_CSV_DATA_DIR) answers
    like the data source does for every asset that is a member of the universe at some time up to the end of the last
    simulated day - whenever it joins."""
    if not ds.adjust:
        return          # the default source serves adjusted prices
    from qstrader.trading.backtest import BacktestTradingSession
    from qstrader.asset.universe.dynamic import DynamicUniverse
    from qstrader.asset.universe.static import StaticUniverse
    from qstrader.alpha_model.fixed_signals import FixedSignalsAlphaModel
    assets = sorted(ds.ev)
    firsts = [ds.ev[a][0][0] for a in assets if ds.ev[a]]
    if not firsts:
        return
    start = min(firsts) + dt.timedelta(days=rng.randint(0, 3))
    end = start + dt.timedelta(days=rng.randint(5, 90))
    if rng.random() < 0.6:
        # members join at different times: at the start, during the session, on its last day, after its end
        entries = {a: tstamp(rng.choice([start, start + (end - start) / 2, end - dt.timedelta(hours=3), end + dt.timedelta(days=5)]))
                   for a in assets}
        entries[assets[0]] = tstamp(start)
        universe = DynamicUniverse(entries)
    else:
        universe = StaticUniverse(assets[:max(1, len(assets) - 1)])       # one file of the directory is not traded
    old = os.environ.get('QSTRADER_CSV_DATA_DIR')
    os.environ['QSTRADER_CSV_DATA_DIR'] = ds.dir
    try:
        sess = BacktestTradingSession(tstamp(start), tstamp(end), universe, FixedSignalsAlphaModel({assets[0]: 1.0}),
                                      rebalance='end_of_month', long_only=True, cash_buffer_percentage=0.05)
    finally:
        if old is None:
            os.environ.pop('QSTRADER_CSV_DATA_DIR', None)
        else:
            os.environ['QSTRADER_CSV_DATA_DIR'] = old
    handler = sess.data_handler
    members = set(universe.get_assets(tstamp(end) + pd.Timedelta(hours=23)))     # judged: every asset the session can ever trade
    for asset in assets:
        if asset not in members:
            continue
        for t in instants(rng, ds.ev[asset])[:25]:
            try:
                got = handler.get_asset_latest_bid_price(tstamp(t), asset)
                check_answer(ds, asset, t, got, 'session.data_handler.bid', acc)
                got = handler.get_asset_latest_ask_price(tstamp(t), asset)
                check_answer(ds, asset, t, got, 'session.data_handler.ask', acc)
            except Violation as v:
                raise Violation(v.prop, 'session-default-handler/' + v.key, 'data handler built by the session itself from '
                                '$QSTRADER_CSV_DATA_DIR: ' + v.msg, v.witness)
            acc.count('C06:session_default_handler_checks')


def run_case(case, acc):
    """Replay: case = {'spec': ..., 'seed': n}."""
    rng = random.Random(case.get('seed', 0))
    ds = Dataset(rng, case['spec'])
    try:
        run_dataset(ds, acc, rng)
    finally:
        ds.close()


def shard_c06(spec, acc):
    core.boot()
    rng = random.Random(spec['rng'])
    t_end = time.time() + spec['budget_s']
    for i in range(spec['cases']):
        if time.time() > t_end:
            acc.count('stopped_on_time_budget')
            break
        seed = rng.randint(0, 2 ** 31)
        r2 = random.Random(seed)
        ds = Dataset(r2)
        try:
            try:
                run_dataset(ds, acc, r2)
                if i % 2 == 0:
                    run_session_default_handler(ds, acc, r2)
                if i % 5 == 0:
                    ds_b = Dataset(r2)
                    try:
                        run_multi_source(ds, ds_b, acc, r2)
                    finally:
                        ds_b.close()
                if i % 5 == 2:
                    # two vendors for the same tickers and dates: the first-listed one has blank cells in its first rows,
                    # the second has every cell (other prices) - the handler falls through exactly where the first has nothing
                    sp_a = json.loads(json.dumps(ds.spec))
                    sp_b = json.loads(json.dumps(ds.spec))
                    for f in sp_a['files'].values():
                        for r in f['rows'][:r2.randint(1, 2)]:
                            r['open'] = r['close'] = r['adj'] = None
                    for f in sp_b['files'].values():
                        for k_, r in enumerate(f['rows']):
                            r['open'] = round(900.0 + 3 * k_ + 0.25, 4)
                            r['close'] = r['adj'] = round(900.0 + 3 * k_ + 1.5, 4)
                            r.pop('volume', None)
                    if any(len(f['rows']) >= 3 for f in sp_a['files'].values()):
                        da, db = Dataset(r2, sp_a), Dataset(r2, sp_b)
                        try:
                            run_multi_source(da, db, acc, r2)
                            acc.count('C06:two_vendor_pairs_with_leading_blanks_in_the_first')
                        finally:
                            da.close()
                            db.close()
                if i % 3 == 1:
                    # same directory path, same constructor arguments, new file content: a NEW source object must
                    # answer from the new rows (nothing keyed on the path may survive)
                    spec2 = json.loads(json.dumps(ds.spec))
                    for f in spec2['files'].values():
                        for r in f['rows']:
                            for fld in ('open', 'close', 'adj'):
                                if r[fld] is not None:
                                    r[fld] = round(r[fld] * 1.5 + 3.0, 4)
                    from qstrader.data.daily_bar_csv import CSVDailyBarDataSource as _Src
                    early = _Src(ds.dir, None, adjust_prices=ds.adjust)        # built now, asked only after the rewrite below
                    ds_again = Dataset(r2, spec2, reuse_dir=ds.dir)
                    try:
                        for asset in list(ds.ev)[:2]:
                            for t in instants(r2, ds.ev[asset])[:12]:
                                try:
                                    check_answer(ds, asset, t, early.get_bid(tstamp(t), asset), 'get_bid', acc)
                                except Violation as v:
                                    raise Violation(v.prop, 'source-built-before-the-files-changed/' + v.key, 'a data source built on the '
                                                    'directory BEFORE its files were rewritten, asked afterwards: ' + v.msg, v.witness)
                                acc.count('C06:answers_of_a_source_built_before_a_rewrite')
                        run_dataset(ds_again, acc, r2)
                    except Violation as v:
                        raise Violation(v.prop, 'directory-reused/' + v.key, 'after the CSV files of the same directory were '
                                        'rewritten and a new data source built on it: ' + v.msg, v.witness)
                    finally:
                        shutil.rmtree(ds_again.dir2, ignore_errors=True)
                    acc.count('C06:directory_reuse_runs')
            except Violation as v:
                acc.violation(v, {'spec': ds.spec, 'seed': seed})
            except Exception as e:
                if not core.from_repo(e):
                    raise
                import traceback
                acc.violation(Violation('C06', 'raised/%s' % type(e).__name__,
                                        'a price query raised %r; every query instant has an answer (a price or NaN)' % (e,),
                                        {'traceback': traceback.format_exc()[-900:]}), {'spec': ds.spec, 'seed': seed})
            acc.evaluations += 1
            if ds.nontrivial():
                acc.nontriv('C06', ds.shape())
            if i < 2:
                acc.sample({'adjust': ds.adjust, 'files': {k: {'rows': f['rows'][:4], 'order': f['order'][:8]}
                                                          for k, f in ds.spec['files'].items()}})
        finally:
            ds.close()
