"""
Independent calendar oracle: datetime/calendar only, no pandas, no qstrader.
All instants are timezone-aware UTC datetimes.
"""
import calendar
import datetime as dt

UTC = dt.timezone.utc
OPEN = dt.time(14, 30)
CLOSE = dt.time(21, 0)
PRE = dt.time(0, 0)
POST = dt.time(23, 59)
WEEKDAYS = ['MON', 'TUE', 'WED', 'THU', 'FRI']


def at(d, t):
    return dt.datetime.combine(d, t, tzinfo=UTC)


def dates(start_date, end_date):
    d = start_date
    one = dt.timedelta(days=1)
    while d <= end_date:
        yield d
        d += one


def business_dates(start, end):
    """Mon-Fri dates d with start.date <= d <= end.date (end time-of-day >= start's assumed)."""
    return [d for d in dates(start.date(), end.date()) if d.weekday() <= 4]


def clock(start, end, pre_market=True, post_market=True):
    out = []
    for d in business_dates(start, end):
        if pre_market:
            out.append((at(d, PRE), 'pre_market'))
        out.append((at(d, OPEN), 'market_open'))
        out.append((at(d, CLOSE), 'market_close'))
        if post_market:
            out.append((at(d, POST), 'post_market'))
    return out


def stamp(pre_market):
    return OPEN if pre_market else CLOSE


def weekly(start, end, weekday, pre_market=False):
    wd = WEEKDAYS.index(weekday.upper())
    return [at(d, stamp(pre_market)) for d in dates(start.date(), end.date()) if d.weekday() == wd]


def daily(start, end, pre_market=False):
    return [at(d, stamp(pre_market)) for d in business_dates(start, end)]


def last_business_date(year, month):
    d = dt.date(year, month, calendar.monthrange(year, month)[1])
    while d.weekday() > 4:
        d -= dt.timedelta(days=1)
    return d


def end_of_month(start, end, pre_market=False):
    out = []
    y, m = start.year, start.month
    while (y, m) <= (end.year, end.month):
        d = last_business_date(y, m)
        if start.date() <= d <= end.date():
            out.append(at(d, stamp(pre_market)))
        m += 1
        if m == 13:
            y, m = y + 1, 1
    return out


def buy_and_hold(start):
    d = start
    while d.weekday() > 4:
        d += dt.timedelta(days=1)
    return [d]


def exchange_open(t):
    if t.weekday() > 4:
        return False
    return OPEN <= t.time().replace(tzinfo=None) < CLOSE
