"""qsmon: runtime monitors for mhallsmoore/qstrader (see /verif/DESIGN.md)."""
