"""
Core of the framework: environment boot, shard accumulator, violation records.

Nothing here knows about any particular property.
"""
import hashlib
import json
import logging
import os
import sys
import warnings
from collections import Counter
from fractions import Fraction

VERIF = os.path.dirname(os.path.dirname(os.path.abspath(__file__)))
REPO = os.path.abspath(os.environ.get('QSMON_REPO', '/repo'))
DEPS = os.path.join(VERIF, '.deps')
GUARD = 'QSTRADER_VERIF'

_BOOTED = False


def ensure_deps():
    """Make icontract importable (installs offline into ./.deps if missing)."""
    if os.path.isdir(DEPS) and DEPS not in sys.path:
        sys.path.insert(1, DEPS)
    try:
        import icontract  # noqa: F401
        return True
    except Exception:
        pass
    try:
        import subprocess
        subprocess.run(
            ['/venv/bin/pip', 'install', '--quiet', '--no-index',
             '--find-links', '/opt/veriftools/wheels', '--target', DEPS,
             'icontract'],
            stdout=subprocess.DEVNULL, stderr=subprocess.DEVNULL, timeout=120)
        if DEPS not in sys.path:
            sys.path.insert(1, DEPS)
        import importlib
        importlib.invalidate_caches()
        import icontract  # noqa: F401
        return True
    except Exception:
        return False


def boot():
    """Import qstrader from the working tree under test, silence its output."""
    global _BOOTED
    if _BOOTED:
        return
    sys.dont_write_bytecode = True
    os.environ[GUARD] = '1'
    os.environ.setdefault('MPLBACKEND', 'Agg')
    if REPO in sys.path:
        sys.path.remove(REPO)
    sys.path.insert(0, REPO)
    if os.path.isdir(DEPS) and DEPS not in sys.path:
        sys.path.insert(1, DEPS)
    warnings.simplefilter('ignore')
    import qstrader
    here = os.path.realpath(os.path.dirname(qstrader.__file__))
    if not here.startswith(os.path.realpath(REPO) + os.sep):
        raise RuntimeError(
            'qstrader imported from %s, not from the tree under test %s'
            % (here, REPO))
    from qstrader import settings
    settings.set_print_events(False)
    logging.disable(logging.CRITICAL)
    _BOOTED = True


# ---------------------------------------------------------------------------
# exact arithmetic helpers
# ---------------------------------------------------------------------------

REL = 1e-9


def F(x):
    """Exact rational value of a float/int (the value the code received)."""
    if isinstance(x, Fraction):
        return x
    if isinstance(x, bool):
        return Fraction(int(x))
    if isinstance(x, int):
        return Fraction(x)
    return Fraction(float(x))


def close(actual, exact, scale=1, rel=REL):
    """|actual - exact| <= rel * (scale)   with exact a Fraction."""
    try:
        a = float(actual)
    except Exception:
        return False
    if a != a or a in (float('inf'), float('-inf')):
        return False
    return abs(Fraction(a) - exact) <= Fraction(rel) * (abs(F(scale)) + 1)


def is_cents(v):
    c = float(v) * 100.0
    return abs(c - round(c)) <= 1e-6 * max(1.0, abs(c))


def near_half_integer(exact, rel=REL):
    """True when a rounding-to-nearest decision on `exact` is a (near) tie."""
    fl = exact.numerator // exact.denominator
    frac = exact - fl
    return abs(frac - Fraction(1, 2)) <= Fraction(rel) * (abs(exact) + 1)


def round_candidates(exact):
    """Acceptable results of round-to-nearest of an exact rational."""
    exact = F(exact)
    fl = exact.numerator // exact.denominator
    frac = exact - fl
    if near_half_integer(exact):
        return {fl, fl + 1}
    return {fl + 1} if frac > Fraction(1, 2) else {fl}


def near_integer(exact, rel=REL):
    n = round(exact)
    return abs(exact - n) <= Fraction(rel) * (abs(exact) + 1)


def floor_candidates(exact):
    """
    Acceptable results of floor() of a real whose float image is near an integer.
    Around zero nothing is ambiguous: float multiplication/division keeps the sign and an exact zero stays zero.
    """
    fl = exact.numerator // exact.denominator
    out = {fl}
    if near_integer(exact):
        n = round(exact)
        if n != 0:
            out |= {n, n - 1}
    return out


def trunc_candidates(exact):
    t = int(exact)  # Fraction.__trunc__ : toward zero
    out = {t}
    if near_integer(exact):
        n = round(exact)
        if n > 0:
            out |= {n, n - 1}
        elif n < 0:
            out |= {n, n + 1}
    return out


# ---------------------------------------------------------------------------
# result accumulation
# ---------------------------------------------------------------------------

def sig(*parts):
    return hashlib.sha1(repr(parts).encode()).hexdigest()[:14]


def jsonable(x):
    """Best-effort conversion of harness objects to JSON-able values."""
    import math
    if x is None or isinstance(x, (bool, int, str)):
        return x
    if isinstance(x, float):
        if math.isnan(x):
            return 'NaN'
        if math.isinf(x):
            return 'Infinity' if x > 0 else '-Infinity'
        return x
    if isinstance(x, Fraction):
        return float(x)
    if isinstance(x, dict):
        return {str(k): jsonable(v) for k, v in x.items()}
    if isinstance(x, (list, tuple, set, frozenset)):
        return [jsonable(v) for v in x]
    try:
        import numpy as np
        if isinstance(x, np.generic):
            return jsonable(x.item())
    except Exception:
        pass
    return str(x)


class Violation(Exception):
    """Raised (or recorded) by a monitor: the property is refuted on this case."""

    def __init__(self, prop, key, msg, witness=None):
        super().__init__('%s [%s] %s' % (prop, key, msg))
        self.prop = prop
        self.key = key
        self.msg = msg
        self.witness = witness or {}

    def as_dict(self):
        return {'property': self.prop, 'key': self.key, 'msg': self.msg,
                'witness': jsonable(self.witness)}


def from_repo(exc):
    """True when the exception propagated out of code of the tree under test (not a harness bug)."""
    tb = exc.__traceback__
    root = os.path.realpath(REPO) + os.sep
    while tb is not None:
        if os.path.realpath(tb.tb_frame.f_code.co_filename).startswith(root):
            return True
        tb = tb.tb_next
    return False


def guarded(prop, acc, case, fn, *args, **kw):
    """
    Run one case. A monitor's Violation is recorded; an exception that comes out of the code under test on an
    input the harness generated as VALID is recorded as a violation too (key raised/<Type>); anything else is a
    harness bug and propagates (the shard then reports inconclusive).
    """
    import traceback
    try:
        return fn(*args, **kw)
    except Violation as v:
        acc.violation(v, case)
    except Exception as e:
        if not from_repo(e):
            raise
        acc.violation(Violation(prop, 'raised/%s' % type(e).__name__,
                                'the code under test raised %r on a valid input' % (e,),
                                {'traceback': traceback.format_exc()[-1200:]}), case)
    return None


class loud(object):
    """
    Run a block with the library's event printing switched ON (its default), output discarded, and with logging
    enabled down to DEBUG. The harness normally silences both (logging disabled altogether); code that only runs when
    events are printed or records are emitted must be exercised too.
    """

    def __init__(self, on=True, strict=False):
        self.on = on
        self.strict = strict        # the application runs with warnings escalated to errors (python -W error)

    def __enter__(self):
        if self.strict:
            import warnings
            self._cw = warnings.catch_warnings()
            self._cw.__enter__()
            warnings.simplefilter('error')
        if self.on:
            from qstrader import settings
            self._out = sys.stdout
            self._null = open(os.devnull, 'w', encoding='ascii')       # a console that only takes ASCII (C locale)
            sys.stdout = self._null
            settings.set_print_events(True)
            # ... and with the application's logging switched on down to DEBUG (records go to a null handler)
            root = logging.getLogger()
            self._lvl = root.level
            if not any(isinstance(h, logging.NullHandler) for h in root.handlers):
                root.addHandler(logging.NullHandler())
            root.setLevel(logging.DEBUG)
            logging.disable(logging.NOTSET)
        return self

    def __exit__(self, *exc):
        if self.on:
            from qstrader import settings
            settings.set_print_events(False)
            sys.stdout = self._out
            self._null.close()
            logging.getLogger().setLevel(self._lvl)
            logging.disable(logging.CRITICAL)
        if self.strict:
            self._cw.__exit__(None, None, None)
        return False


class Acc(object):
    """What one shard (or a whole run, after merging) observed."""

    MAX_SAMPLES = 3
    MAX_VIOL = 40

    def __init__(self):
        self.evaluations = 0
        self.counters = Counter()
        self.nontrivial = set()
        self.sets = {}
        self.samples = []
        self.violations = []
        self.inconclusive = []

    def count(self, name, n=1):
        self.counters[name] += n

    def see(self, setname, item):
        self.sets.setdefault(setname, set()).add(str(item))

    def nontriv(self, *signature):
        self.nontrivial.add(sig(*signature))

    def sample(self, case):
        if len(self.samples) < self.MAX_SAMPLES:
            self.samples.append(jsonable(case))

    def violation(self, v, case):
        if len(self.violations) < self.MAX_VIOL:
            d = v.as_dict()
            d['case'] = jsonable(case)
            self.violations.append(d)
        self.counters['violations_total'] += 1

    def to_json(self):
        return {
            'evaluations': self.evaluations,
            'counters': dict(self.counters),
            'nontrivial': sorted(self.nontrivial),
            'sets': {k: sorted(v) for k, v in self.sets.items()},
            'samples': self.samples,
            'violations': self.violations,
            'inconclusive': self.inconclusive,
        }

    def merge_json(self, d):
        self.evaluations += d['evaluations']
        self.counters.update(d['counters'])
        self.nontrivial.update(d['nontrivial'])
        for k, v in d['sets'].items():
            self.sets.setdefault(k, set()).update(v)
        for s in d['samples']:
            if len(self.samples) < self.MAX_SAMPLES:
                self.samples.append(s)
        for v in d['violations']:
            if len(self.violations) < 4 * self.MAX_VIOL:
                self.violations.append(v)
        self.inconclusive.extend(d['inconclusive'])


def dump(path, obj):
    tmp = path + '.tmp'
    with open(tmp, 'w') as f:
        json.dump(obj, f, indent=1, sort_keys=True, default=str)
    os.replace(tmp, path)
