"""C07 - backtest results up to any date do not depend on later market data."""
from qsmon import pairwl
from qsmon.props import _common

PROP = 'C07'
LEVEL = 'exploration'
RULE = ('Twin worlds: the same session configuration is run by the real BacktestTradingSession on market A and on '
        'market B = A with every bar dated after a cut day T rewritten (re-seeded values, scaled, cells blanked, rows '
        'deleted, or all later rows removed; >= 1 row is always kept per file). Everything recorded at the boundary '
        'hooks - daily equity samples, delivered fills, allocation rows, and the error (type, message, simulation '
        'time) if the run fails - dated <= T must be bit-identical (float.hex). Configurations: fixed / universe-driven '
        '/ top-N momentum / momentum-sign / SMA-trend / inverse-volatility alpha models, static and dynamic universes '
        'incl. assets whose data start later and markets with blank Open/Close cells (also on the leading rows), every rebalance kind, both sizers, fees, with and without burn-in; T '
        'uniform over the session. A future-read detector tags every data-source read with the simulation time at '
        'which it was made and decodes the source row of the returned value; a read from a later day triggers a directed '
        'twin that rewrites exactly that row. Non-trivial: the two worlds really diverge after T and >= 1 fill is dated '
        '<= T; distinct = (config signature, rewrite kind, T).'
        ' Widened: in 40% of the twins the data source first serves another session (started later) in both worlds; expensive shares whose Adj Close is quoted to cents; zero/negative prices in the rewritten future; Adj Close blank on its own.')
RULE += ' 30% of the twins run on two data sources (the second carries some of the same tickers at other prices, from the first day, sometimes reaching further into the future; in the first source one such ticker starts part-way); both sources are rewritten after T, mostly by deleting/removing bars in that case. 40% of the markets contain untraded days whose bar repeats the previous bar in every column. With a late-starting asset the cut is often before its first bar and the handler has usually served an earlier session.'
RULE += " A fifth of the 'stale' markets quote closes in whole units (written without decimals) with fractional opens."
RULE += ' Round 11: 20% of the twin cases have markets with one-session crashes / spikes (half undone the next day) and the cut day on such a day; 12% have the cut day on a day where a file has an open but no close, with the later bars removed or deleted (unadjusted prices).'
ASSUMPTIONS = ['the cut is by day, as in the statement (same-day look-ahead is covered by C08, not C07)']


def plan(tier, seed):
    return _common.split(seed, 16, 272 if tier == 'quick' else 12000, 90 if tier == 'quick' else 1700)


def run_shard(spec, acc):
    pairwl.shard_c07(spec, acc)


def replay(case, acc):
    pairwl.run_case(case, acc)


def finish(acc, tier):
    out = []
    if acc.counters.get('C07:compared_fills', 0) == 0 or acc.counters.get('C07:compared_equity_points', 0) == 0:
        out.append('no fill / equity point dated <= T was ever compared')
    if acc.counters.get('C07:reads_observed', 0) == 0:
        out.append('the data-source read hook was never reached')
    if acc.counters.get('C07:twins_that_diverge_after_T', 0) == 0:
        out.append('no twin diverged after T (rewrites ineffective)')
    return out
