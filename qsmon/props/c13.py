"""C13 - rebalance schedules hold exactly the intended dates and meet a clock event."""
from qsmon import calwl
from qsmon.props import c12

PROP = 'C13'
LEVEL = 'exploration'
RULE = ('Same windows as C12 (every start date 2019-12-01..2024-03-31 x start time {00:00,14:30} x lengths 0..45 d in '
        'the thorough tier; every 11th start date in quick; plus random ranges 1990-2060 up to 3 years '
        'with arbitrary start times of day). For each range: WeeklyRebalance for MON..FRI (upper and lower case) x '
        'pre-market flag, DailyRebalance, EndOfMonthRebalance (both flags), BuyAndHoldRebalance, compared with an '
        'independent datetime-only calendar (weekday filter; last Mon-Fri date of each month; start rolled forward '
        'to Monday keeping the time of day); every weekly/daily/end-of-month instant must be a timestamp emitted by '
        'the real simulation clock for the same range; non-weekday names must raise ValueError. Non-trivial: a range '
        '>= 7 days holding a month end (window) / a month end that falls on a weekend (random); distinct = (start, '
        'length).'
        ' Also: schedules are rebuilt and re-checked after a BacktestTradingSession with a burn-in over the same range was constructed in the same process; starts with seconds/microseconds; prefix look-alikes of weekday names.')
RULE += " After-session part also: the session's own rebalance_schedule equals the oracle schedule, its sim_engine emits exactly the clock of the range and contains every scheduled instant, and weekly sessions with rebalance_weekday in {'', SAT, SUN, WEEKLY} are rejected with ValueError. Three sessions per shard are RUN (start time of day 00:00 ... 23:30, no burn-in, fixed/single alpha) and must rebalance at every instant of their schedule."
RULE += ' Quick tier also: every start date within three days of a month boundary (lengths 0, 2, 9, 33). A quarter of the oracle clocks and every session clock are looked at (next(iter(.))) before the full pass. A session may hold its schedule cut at its burn-in.'
RULE += " 40% of the run sessions end at the start's time of day (00:00..00:00, 14:30:01..14:30:01, ...)."
RULE += ' A fifth of the random ranges start between 1950 and 1969.'
RULE += ' Clocks with the other three flag combinations are run once at the start of every shard; a quarter of all shards run with calendar.setfirstweekday(SUNDAY).'
RULE += ' Round 11: before the valid requests the process has had a reversed range and an unknown weekday refused.'
RULE += ' Round 12: every other shard builds its schedules and clocks with logging enabled down to DEBUG.'
RULE += " Round 13: the session's rebalance_schedule is read again after run() and must still be the schedule of its range."
ASSUMPTIONS = ['UTC timestamps; end time-of-day not before the start\'s (the quantifier)']
EXHAUSTIVE = {'thorough': 'all (start date in 2019-12-01..2024-03-31) x (start 00:00|14:30) x (length 0..45 d) x '
                          '(5 weekdays x 2 flags + daily x 2 + end-of-month x 2 + buy-and-hold)'}


def plan(tier, seed):
    specs = c12._specs(tier, seed)
    for s in specs:
        s['random'] = 10 if tier == 'quick' else 120
    return specs


def run_shard(spec, acc):
    calwl.shard_c13(spec, acc)


def replay(case, acc):
    from qsmon import core
    if 'market' in case:
        from qsmon import sesswl
        sesswl.run_case(case, acc, PROP)
        return
    try:
        calwl.run_sched_case(case, acc)
    except core.Violation as v:
        acc.violation(v, case)


def finish(acc, tier):
    out = []
    for k in ('weekly', 'daily', 'end_of_month', 'buy_and_hold'):
        if acc.counters.get('C13:%s' % k, 0) == 0:
            out.append('schedule kind %s never checked' % k)
    if acc.counters.get('C13:clock_membership_checks', 0) == 0:
        out.append('clock membership never checked')
    if acc.counters.get('C13:rejections_checked', 0) == 0:
        out.append('bad weekday rejection never exercised')
    if tier == 'thorough' and acc.counters.get('window_start_dates_completed', 0) < len(calwl.window_days()):
        out.append('exhaustive window incomplete')
    return out
