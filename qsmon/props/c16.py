"""C16 - signals equal their definitions over the trailing window of supplied closes."""
import random
import time

from qsmon import core, sesswl
from qsmon.props import _common

PROP = 'C16'
LEVEL = 'exploration'
RULE = ('(a) direct streams: the real MomentumSignal / SMASignal / VolatilitySignal over 1-5 assets (names with "_" and '
        'digits, to attack the "<asset>_<lookback>" buffer key) with 1-4 distinct lookbacks in 1..30 are fed 1-120 '
        'positive prices per asset, interleaved across assets, and after EVERY append every (asset, lookback) value is '
        'compared with the definition over the harness\'s own record of that asset\'s stream (so cross-talk between '
        'lookbacks or assets shows up as a wrong value); (b) full sessions with signal-driven alpha models over static '
        'and dynamic universes (entries before / inside / after the session, several assets entering on the same day, '
        'late-starting data; in 30% the signals are built on their own static universe of all symbols, wider than the traded one): exactly one observation per tracked asset per market close, none at the open, equal to '
        'that day\'s close from the CSV, first observation at the first close at or after universe entry, final values '
        'equal the definitions. Non-trivial: a stream longer than its largest lookback (direct) / a session with a late '
        'entrant or >= 20 updates; distinct = case signature.')
RULE += ' 15% of the sessions read two data sources (composite oracle).'
RULE += " 20% of the signal sessions build their SignalsCollection on its own data handler (same files, other adjustment setting; feeds are compared with that handler's closes); inverse-volatility cases with an SMA put the two signals of one collection on different universes; a signal fed an asset outside its own universe is a violation."
RULE += ' Observations are recorded where they land (AssetPriceBuffers.append); 40% of the SMA sessions use a user-defined subclass overriding append() with its own tally, which must agree with what reached its buffers.'
RULE += ' Direct streams: half-way the signal is deep-copied and the copy fed six other prices - copy and original are both checked against their own streams. Sessions: a quarter of the dynamic universes are a user-defined Universe subclass (not derived from DynamicUniverse).'
RULE += ' 12% of the direct streams are pegged instruments (closes within 4 ppm of 1.0).'
RULE += " Signals may be created for an inception date 20 days before the session's start (a member joined in between); a third of the static-universe sessions are the SECOND session on a shared signals collection and alpha model (windows continue from the first session's feeds)."
RULE += " Round 11: the momentum model screens every ticker of the listing (also those without any observation yet: KeyError, skipped) before weighting the members; a fifth of the static-universe signal sessions declare their signals for a date six days after the session's start."
ASSUMPTIONS = ['momentum/SMA 1e-9 relative; volatility 1e-9 relative (+1e-12 absolute)',
               'a session that raises the documented NaN-price ValueError is checked up to that instant']
ALPHAS = ('topn_mom', 'sma_trend', 'inv_vol', 'mom_sign')
NAMES = ['EQ:AAA', 'EQ:A_1', 'EQ:A_1_2', 'X_9', 'EQ:B', 'B_1', 'EQ:SPY', 'EQ:A']


class U(object):
    def __init__(self, assets):
        self.assets = assets

    def get_assets(self, dt):
        return list(self.assets)


def direct_case(rng):
    n = rng.randint(1, 5)
    assets = rng.sample(NAMES, n)
    lbs = sorted(rng.sample(range(1, 31), rng.randint(1, 4)))
    if rng.random() < 0.3:
        lbs = sorted(set(lbs) | {lbs[0] + 1})          # adjacent lookbacks: N and N+1 share the bumped key space
    if rng.random() < 0.6:
        rng.shuffle(lbs)                                # the list of lookbacks need not be ascending
    kind = rng.choice(['momentum', 'sma', 'vol'])
    length = rng.choice([1, 2, 3, 10, 40, 120])
    feed = []
    level = {a: 10 ** rng.uniform(-1, 3) for a in assets}
    jump = rng.random() < 0.3
    pegged = rng.random() < 0.12           # a pegged instrument: every close within a few parts per million of 1.0
    if pegged:
        level = {a: 1.0 for a in assets}
    for _ in range(length):
        order = list(assets)
        rng.shuffle(order)
        for a in order:
            if pegged:
                feed.append([a, round(1.0 + rng.uniform(-4e-6, 4e-6), 8)])
                continue
            if rng.random() < 0.85:
                level[a] = max(0.01, level[a] * (1 + rng.gauss(0, 0.03)))
                if jump and rng.random() < 0.05:
                    level[a] = max(1e-6, level[a] * rng.choice([1e-9, 1e-12, 1e9, 1e-6]))   # re-denomination
                    feed.append([a, float('%.6g' % level[a])])
                    continue
                feed.append([a, round(level[a], rng.choice([2, 4, 8])) if level[a] >= 0.01 else float('%.6g' % level[a])])
    return {'kind': kind, 'assets': assets, 'lookbacks': lbs, 'feed': feed}


def run_direct(case, acc):
    core.boot()
    from qstrader.signals.momentum import MomentumSignal
    from qstrader.signals.sma import SMASignal
    from qstrader.signals.vol import VolatilitySignal
    import pandas as pd
    cls = {'momentum': MomentumSignal, 'sma': SMASignal, 'vol': VolatilitySignal}[case['kind']]
    sig = cls(pd.Timestamp('2020-01-01', tz='UTC'), U(case['assets']), list(case['lookbacks']))
    streams = {a: [] for a in case['assets']}
    fork_at = len(case['feed']) // 2 if len(case['feed']) >= 4 and len(case['lookbacks']) % 2 else None
    fork = fork_streams = None
    for i, (a, p) in enumerate(case['feed']):
        if i == fork_at:
            # a deep copy of the signal (what-if analysis on a copy) gets its own future: neither object sees the other's prices
            import copy
            fork = copy.deepcopy(sig)
            fork_streams = {k: list(v) for k, v in streams.items()}
            for a2, p2 in case['feed'][:6]:
                fork.append(a2, p2 * 1.5 + 1.0)
                fork_streams[a2].append(p2 * 1.5 + 1.0)
            try:
                sesswl.check_signal_values(case['kind'], fork, fork_streams, case['lookbacks'], acc)
                sesswl.check_signal_values(case['kind'], sig, streams, case['lookbacks'], acc)
            except core.Violation as v:
                raise core.Violation('C16', 'after-deepcopy/' + v.key, 'after the signal was deep-copied and the copy fed six more prices: ' + v.msg, v.witness)
            acc.count('C16:deep_copied_signals')
        sig.append(a, p)
        streams[a].append(p)
        # the appended asset always; every other asset (cross-talk) every 5th append and at the end
        view = streams if (i % 5 == 0 or i == len(case['feed']) - 1) else {a: streams[a]}
        sesswl.check_signal_values(case['kind'], sig, view, case['lookbacks'], acc)
        acc.count('C16:direct_appends')
    try:
        sig.append(case['assets'][0], -1.0)
    except ValueError:
        acc.count('C16:nonpositive_rejected')
    else:
        raise core.Violation('C16', 'nonpositive-price-accepted', 'a non-positive price was appended to the window', {})


def plan(tier, seed):
    specs = _common.split(seed, 8, 480 if tier == 'quick' else 40000, 50 if tier == 'quick' else 1200, kind='direct')
    specs += [dict(s, kind='session', shard=8 + s['shard']) for s in
              _common.split(seed + 1, 8, 120 if tier == 'quick' else 10000, 55 if tier == 'quick' else 1400)]
    return specs


def run_shard(spec, acc):
    rng = random.Random(spec['rng'])
    t_end = time.time() + spec['budget_s']
    for i in range(spec['cases']):
        if time.time() > t_end:
            acc.count('stopped_on_time_budget')
            break
        if spec['kind'] == 'direct':
            case = direct_case(rng)
            try:
                run_direct(case, acc)
            except core.Violation as v:
                acc.violation(v, {'kind': 'direct', 'case': case})
            n = max((sum(1 for a, _ in case['feed'] if a == x) for x in case['assets']), default=0)
            if n > max(case['lookbacks']) + 1:
                acc.nontriv(PROP, case['kind'], tuple(case['assets']), tuple(case['lookbacks']), len(case['feed']))
            acc.count('direct:%s' % case['kind'])
            if i < 1:
                acc.sample({'kind': case['kind'], 'assets': case['assets'], 'lookbacks': case['lookbacks'],
                            'feed_head': case['feed'][:6]})
        else:
            cfg = sesswl.gen_cfg(rng, alpha_kinds=ALPHAS, universe_kinds=('static', 'dynamic', 'dynamic'),
                                 max_days=60 if spec['tier'] == 'quick' else 200, full_data=False, n_assets=rng.randint(2, 6),
                                 signal_universes=True)
            if cfg['universe']['kind'] == 'dynamic' and rng.random() < 0.4:
                # the universe object already served an earlier session: a late entrant must still start empty
                world = sesswl.make_world(cfg)
                try:
                    shared = {'share_universe': True}
                    sesswl.run_session(dict(cfg, burn_in=None), world, shared=shared)
                    shared.pop('source', None)
                    tr = sesswl.run_session(cfg, world, shared=shared)
                    core.guarded(PROP, acc, dict(cfg, reuse_universe=True), sesswl.check_c16_session, cfg, world, tr, acc)
                    acc.count('C16:sessions_on_reused_universe')
                finally:
                    world.close()
            elif rng.random() < 0.35 and not cfg['alpha'].get('early_signals') and cfg['universe']['kind'] == 'static':
                # one signals collection and alpha model serve two sessions one after the other (a comparison of two
                # rebalance frequencies over the same period): in the second session they are fed once per close again
                world = sesswl.make_world(cfg)
                try:
                    shared = {'share_universe': True, 'share_signals': True}
                    first = dict(cfg, burn_in=None, rebalance='daily' if cfg['rebalance'] != 'daily' else 'end_of_month')
                    first.pop('weekday', None)
                    tr1 = sesswl.run_session(first, world, shared=shared)
                    shared.pop('source', None)
                    shared['prior_appends'] = list(tr1.appends)
                    tr = sesswl.run_session(cfg, world, shared=shared)
                    if tr1.error is None:
                        core.guarded(PROP, acc, dict(cfg, shared_signals=True), sesswl.check_c16_session, cfg, world, tr, acc)
                        acc.count('C16:second_sessions_on_a_shared_signals_collection')
                finally:
                    world.close()
            else:
                tr, _ = sesswl.run_case(cfg, acc, PROP)
            acc.count('sessions:%s' % cfg['alpha']['kind'])
            if tr.error is not None:
                acc.count('sessions_ended_by:%s' % tr.error[0])
            if len(tr.sig_updates) >= 20:
                acc.nontriv(PROP, sesswl.cfg_signature(cfg))
        acc.evaluations += 1


def replay(case, acc):
    if case.get('reuse_universe'):
        cfg = {k: v for k, v in case.items() if k != 'reuse_universe'}
        world = sesswl.make_world(cfg)
        try:
            shared = {'share_universe': True}
            sesswl.run_session(dict(cfg, burn_in=None), world, shared=shared)
            shared.pop('source', None)
            tr = sesswl.run_session(cfg, world, shared=shared)
            core.guarded(PROP, acc, case, sesswl.check_c16_session, cfg, world, tr, acc)
        finally:
            world.close()
    elif case.get('kind') == 'direct':
        try:
            run_direct(case['case'], acc)
        except core.Violation as v:
            acc.violation(v, case)
    else:
        sesswl.run_case(case, acc, PROP)


def finish(acc, tier):
    out = []
    for k in ('C16:signal_values_checked', 'C16:feed_checks', 'C16:direct_appends'):
        if acc.counters.get(k, 0) == 0:
            out.append('%s never evaluated' % k)
    for k in ('momentum', 'sma', 'vol'):
        if acc.counters.get('direct:%s' % k, 0) == 0:
            out.append('signal %s never driven directly' % k)
    if acc.counters.get('C16:late_entrants', 0) == 0:
        out.append('no late universe entrant observed')
    return out
