"""C12 - the simulation clock is strictly increasing and covers exactly business days."""
from qsmon import calwl

PROP = 'C12'
LEVEL = 'exploration'
RULE = ('Exhaustive window: every start date from 2019-12-01 to 2024-03-31 (leap day, year ends, every weekday '
        'alignment) x start time {00:00, 14:30} x every length 0..45 days (end 23:59) x all four pre/post-market flag '
        'combinations (thorough; quick uses every 11th start date - 11 is coprime to 7), plus random '
        'ranges 1990-2060 up to 3 years with random times of day (end time-of-day >= start\'s) and the end<start '
        'rejection. The real DailyBusinessDaySimulationEngine is iterated and its event list compared with an '
        'independent datetime-only calendar; strict monotonicity asserted pairwise. Non-trivial: a range that '
        'contains both business days and weekend days; distinct = (start, length).'
        ' Per range also: a second pass over the same engine, a full pass after an abandoned partial pass, list(engine) read afterwards, and two simultaneous iterators (zip(engine, islice(engine, 1, None))); random starts carry seconds and microseconds.')
RULE += ' Every third random range also builds a BacktestTradingSession (daily, burn-in inside the range) and iterates its sim_engine: the same event list is required.'
RULE += " Session clocks are built with UTC spelled as pytz.UTC / datetime.timezone.utc / 'UTC' in turn for start, end and burn-in."
RULE += ' For ranges checked with re-use, copy.copy and copy.deepcopy of the engine must emit the same events.'
RULE += ' A fifth of the random ranges start between 1950 and 1969.'
RULE += ' Engines checked with re-use get their pre/post-market flags switched after the first pass; the next pass follows the new flags.'
RULE += ' Round 12: every other shard runs with logging enabled down to DEBUG and event printing on.'
ASSUMPTIONS = ['UTC timestamps; end time-of-day not before the start\'s (the quantifier)']
EXHAUSTIVE = {'thorough': 'all (start date in 2019-12-01..2024-03-31) x (start 00:00|14:30) x (length 0..45 d) x 4 flag combinations'}


def _specs(tier, seed, n=16):
    days = len(calwl.window_days())
    specs = []
    if tier == 'quick':
        per = (days + n - 1) // n
        for i in range(n):
            specs.append({'lo': i * per, 'hi': min(days, (i + 1) * per), 'stride': 11, 'lengths': list(range(46)),
                          'random': 12, 'rng': seed * 1000003 + i, 'budget_s': 60})
    else:
        n = 32
        per = (days + n - 1) // n
        for i in range(n):
            specs.append({'lo': i * per, 'hi': min(days, (i + 1) * per), 'stride': 1, 'lengths': list(range(46)),
                          'random': 150, 'rng': seed * 1000003 + i, 'budget_s': 1500})
    return specs


def plan(tier, seed):
    return _specs(tier, seed)


def run_shard(spec, acc):
    calwl.shard_c12(spec, acc)


def replay(case, acc):
    from qsmon import core
    try:
        calwl.run_clock_case(case, acc)
    except core.Violation as v:
        acc.violation(v, case)


def finish(acc, tier):
    out = []
    if acc.counters.get('C12:events_observed', 0) == 0:
        out.append('no clock event observed')
    if acc.counters.get('C12:rejections_checked', 0) == 0:
        out.append('the end<start rejection was never exercised')
    if tier == 'thorough' and acc.counters.get('window_start_dates_completed', 0) < len(calwl.window_days()):
        out.append('exhaustive window incomplete: %d of %d start dates'
                   % (acc.counters.get('window_start_dates_completed', 0), len(calwl.window_days())))
    return out
