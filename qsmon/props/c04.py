"""C04 - orders fill exactly once, in full, only in exchange hours, sells first."""
from qsmon import brokerwl
from qsmon.props import _common

PROP = 'C04'
LEVEL = 'exploration'
RULE = ('Random interleavings of order submissions (1-4 portfolios, 1-5 quoted assets, either side) with broker '
        'updates on a hostile non-decreasing time grid (14:29:59.999999, 14:30:00, 20:59:59.999999, 21:00:00, '
        'weekends, same instant, +1us, long closed stretches), quote moves between them, and ExecutionHandler calls. '
        'Exactly-once checker over the recorded history with an independent hours predicate; per portfolio sells '
        'before buys and submission order per side (seen both in Portfolio.history and in the delivered '
        'transactions); pending queue == unfilled orders after every request. Non-trivial: some order waited through '
        '>=1 out-of-hours update and some batch had both sides; distinct = distinct (request kind, side) sequence.'
        ' Order ids may repeat across portfolios (fills are matched by (portfolio, id)).')
RULE += " Per update also: every portfolio's holdings move by exactly the quantities filled in it, and across the whole account (all portfolios, sequence of delivered transactions) every sell precedes every buy."
RULE += " 20% of the orders carry a creation time other than the broker's now (-3D ... +17h30min): submission order decides. Two directed scripts per case: an order for an asset that gets its first quote only at the fill time waits through 1-6 updates outside exchange hours (weekend included), untouched, and fills in full at the first in-hours update."
RULE += ' 7% of the order requests are a buy and a sell of the same size for one asset submitted back to back (both wait in the same queue and fill in one update).'
RULE += ' Kept handles as in C01; 4% of the time steps add 1-999 ns to the instant.'
RULE += ' A refused request (e.g. a duplicate create_portfolio) must leave the pending orders of every portfolio as they were; start instants before 1970 are among the choices.'
RULE += ' Round 11: directed script through the REAL BacktestDataHandler over CSV files (handler given no universe / a universe narrower than the orders / a dynamic universe whose entry for the traded asset is later; one or two sources): both orders are filled in full exactly once at the in-hours update and not again at the next.'
RULE += ' Round 12: in 30% of the real-handler scripts the CSV directory is named relative to a working directory the program leaves before the first lookup.'
ASSUMPTIONS = [
    'times are non-decreasing and every ordered asset has a quote (the quantifier); UTC timestamps',
    'fill order across different portfolios is not observable through the API and is only recorded',
]


def plan(tier, seed):
    return _common.split(seed, 16, 560 if tier == 'quick' else 56000, 45 if tier == 'quick' else 1200, kind='broker')


def run_shard(spec, acc):
    brokerwl.shard_broker(spec, acc, PROP, 'benign')


def replay(case, acc):
    if 'late_quote' in case:
        from qsmon import core
        try:
            brokerwl.late_quote_case(case['late_quote'], acc)
        except core.Violation as v:
            acc.violation(v, case)
        return
    brokerwl.run_case(case, acc, PROP)


def finish(acc, tier):
    out = []
    if acc.counters.get('hook:transact_asset', 0) == 0:
        out.append('the transaction hook on Portfolio.transact_asset was never reached')
    if acc.counters.get('C04:fills_checked', 0) == 0 or acc.counters.get('C04:closed_updates_with_pending', 0) == 0:
        out.append('no fill / no closed update with pending orders observed')
    need = {'open-instant', 'close-instant', 'open-1us', 'close-1us', 'weekend', 'open', 'closed'}
    miss = need - set(acc.sets.get('C04:update_cells', ()))
    if miss:
        out.append('update time cells never visited: %s' % sorted(miss))
    return out
