"""C05 - fills use the current quote and charge exactly the fee model's commission."""
from qsmon import brokerwl
from qsmon.props import _common

PROP = 'C05'
LEVEL = 'exploration'
RULE = ('Random broker-level sequences with a harness-owned quote book in which every bid/ask value is unique and '
        'valid for one instant only (a read for any other instant returns a decoy), bid != ask (8% crossed), prices '
        '0.01-5000 incl. x.5 values that create rounding ties, |quantity| 1-1e5, zero fees or percentage fees with '
        'commission/tax rates in {0,1e-4,0.001,0.005,0.05,0.3,1,random}. Per delivered fill: time == update time, '
        'price bit-equal to ask (buy) / bid (sell), commission == rates x |round(price x qty)| (1e-12; both '
        'neighbours on an exact tie), never negative; per update: cash delta == -(sum price x qty + commission). '
        'Non-trivial: a case with >=1 buy and >=1 sell filled under a non-zero percentage model; distinct = distinct '
        '(request kind, side) sequence.'
        ' Also 6 x as many symmetric buy/sell pairs (same price, same size, one update; half with a consideration of exactly n+0.5) and updates that go back in time but are accepted (the fill must carry that update\'s time and quote).')
RULE += " One order in ten is built with the optional Order(commission=...) argument (the fee model still decides); every third symmetric pair is repeated under a second fee schedule in the same process and its commission compared with the fee model's value."
RULE += " Two directed scripts per case: an in-hours update that fills one order and then fails on an order for an unpriced asset (documented ValueError), optionally a closed-hours update, then a fill of the same asset at a new quote - priced, charged and stamped at its own update. The commission implied by each fill's ledger entry (debit - price x quantity; proceeds - credit) is compared with the fee model as well."
RULE += ' Half of the symmetric pairs build the broker with positional arguments in the documented order; a third run the pair once, then revise commission_pct/tax_pct on the same fee-model object and run the same trade again.'
RULE += ' 12% of the symmetric pairs have a consideration 3-4.9 billionths below n + 0.5 for n in {0, 1, 2} (unambiguously rounds down).'
RULE += ' 30% of the symmetric pairs run on a broker built with the default fee model and given its PercentFeeModel afterwards (broker.fee_model = ...).'
RULE += " Round 11: the same real-handler script judged on cash: fills at the FIRST source's quote that has the asset, commission = rates x |consideration rounded to whole units|."
RULE += ' Round 12: as C04 (relative directory); every fifth shard under a 6-digit decimal context.'
ASSUMPTIONS = [
    'the quote book is the harness\'s own data handler (the statement quantifies over bid/ask pairs with bid != ask, '
    'which the CSV data source cannot produce)',
]


def plan(tier, seed):
    return _common.split(seed, 16, 480 if tier == 'quick' else 48000, 45 if tier == 'quick' else 1200, kind='broker')


def run_shard(spec, acc):
    brokerwl.shard_broker(spec, acc, PROP, 'benign+back')


def replay(case, acc):
    brokerwl.run_case(case, acc, PROP)


def finish(acc, tier):
    out = []
    if acc.counters.get('C05:fills_checked', 0) == 0 or acc.counters.get('C05:cash_delta_checks', 0) == 0:
        out.append('no fill observed by the C05 monitor')
    need = {'pct/buy', 'pct/sell', 'zero/buy', 'zero/sell'}
    miss = need - set(acc.sets.get('C05:cells', ()))
    if miss:
        out.append('fee-model x side cells never visited: %s' % sorted(miss))
    return out
