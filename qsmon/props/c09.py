"""C09 - rebalancing trades the portfolio exactly onto its target."""
import random
import time

from qsmon import core, pcmwl, sesswl
from qsmon.props import _common

PROP = 'C09'
LEVEL = 'exploration'
RULE = ('(a) PCM scenario driver: the real PortfolioConstructionModel on a real broker seeded with arbitrary holdings '
        '(long, short, assets no longer in the universe), 3-8 successive rebalances with quote moves in between, '
        'universes and alpha dictionaries that equal / are subsets / supersets / disjoint from the holdings or empty, '
        'both sizers, fees; (b) every rebalance of full sessions over all alpha models and universes. At every call the '
        'recorded inputs (held, universe(dt), weights given to the sizer, sizer target) and outputs (orders, allocation '
        'row) are checked by set algebra: orders == {target - held != 0} in ascending asset order without zeros or '
        'duplicates over universe + held + alpha keys; allocation row covers exactly that set with the sizer\'s input '
        'weights (0 where alpha is silent); after the fills holdings == non-zero targets; unweighted held assets are '
        'fully sold. Non-trivial: a rebalance with a held asset outside the alpha keys and a new asset; distinct = case.')
RULE += ' Half of the driver cases rebalance through a real QuantTradingSystem (portfolio construction + ExecutionHandler submitting the orders); a rebalance request that runs no portfolio construction, or raises, is a violation. 30% of the cases start with several positions of exactly the same size.'
RULE += " After every portfolio construction the broker's holdings report is read before anything is submitted; a construction that records no allocation row is a violation; in sessions every cell of get_target_allocations() must follow the recorded rows (NaN where the asset was not in that rebalance's asset set)."
RULE += " 30% of the driver cases keep ONE real StaticUniverse object for all rebalances and are judged against the universe as configured. Sessions include a time-varying 'switch' alpha that weights an asset outside the static universe for a while and then drops it (the asset set shrinks)."
RULE += ' The PCM driver overwrites the quantities in ITS copy of the holdings report right after reading it.'
RULE += ' Round 11: whole-number alpha weights arrive as ints, every third rebalance as numpy integers.'
RULE += " Round 13: the 'switch' alpha may stand aside (all weights zero, book in cash) for a stretch and re-enter at moved prices."
ASSUMPTIONS = ['the target is the sizer\'s own output (its correctness is C10/C11)']


def plan(tier, seed):
    specs = _common.split(seed, 10, 300 if tier == 'quick' else 30000, 50 if tier == 'quick' else 1200, kind='pcm')
    specs += [dict(s, kind='session', shard=10 + s['shard']) for s in
              _common.split(seed + 1, 6, 60 if tier == 'quick' else 6000, 50 if tier == 'quick' else 1200)]
    return specs


def run_shard(spec, acc):
    rng = random.Random(spec['rng'])
    t_end = time.time() + spec['budget_s']
    for i in range(spec['cases']):
        if time.time() > t_end:
            acc.count('stopped_on_time_budget')
            break
        if spec['kind'] == 'pcm':
            case = pcmwl.gen_case(rng)
            try:
                tr = pcmwl.run_case(case, acc)
                if getattr(tr, 'nontrivial', False):
                    acc.nontriv(PROP, str(case['steps'][0]['weights']), case['cash'], len(case['steps']))
            except core.Violation as v:
                acc.violation(v, {'kind': 'pcm', 'case': case})
            if i < 1:
                acc.sample({'kind': 'pcm', 'seed_holdings': case['seed_holdings'], 'long_only': case['long_only'],
                            'steps': [{k: s[k] for k in ('universe', 'weights', 'keys_mode')} for s in case['steps'][:3]]})
        else:
            cfg = sesswl.gen_cfg(rng, alpha_kinds=('fixed', 'single', 'topn_mom', 'sma_trend', 'inv_vol', 'mom_sign', 'switch', 'switch'),
                                 universe_kinds=('static', 'dynamic'), max_days=60 if spec['tier'] == 'quick' else 200)
            tr, _ = sesswl.run_case(cfg, acc, PROP)
            if any(r['orders'] for r in tr.pcm if r['orders'] is not None) and len(tr.pcm) >= 2:
                acc.nontriv(PROP, sesswl.cfg_signature(cfg))
            acc.count('sessions')
        acc.evaluations += 1


def replay(case, acc):
    if case.get('kind') == 'pcm':
        try:
            pcmwl.run_case(case['case'], acc)
        except core.Violation as v:
            acc.violation(v, case)
    else:
        sesswl.run_case(case, acc, PROP)


def finish(acc, tier):
    out = []
    if acc.counters.get('C09:rebalances_checked', 0) == 0 or acc.counters.get('C09:post_fill_checks', 0) == 0:
        out.append('no rebalance checked')
    if acc.counters.get('C09:nontrivial_rebalances', 0) == 0:
        out.append('no rebalance with a dropped held asset and a new asset')
    return out
