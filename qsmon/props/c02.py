"""C02 - holdings equal the net of all fills and are valued at the latest price."""
from qsmon import brokerwl, ladderwl
from qsmon.props import _common

PROP = 'C02'
LEVEL = 'exploration'
RULE = ('(a) every pattern of (buy|sell) x (smaller|equal|larger than the current net position) for k fills on one '
        'asset (6^k patterns; k=4 quick, k=6 thorough), several random real-valued draws each with marks between '
        'fills, driven on a real Portfolio, checked after every prefix; (b) long random multi-asset ladders; '
        '(c) random broker-level sequences where marks come from broker.update. Oracle: integer net of delivered '
        'fills, latest price seen (fill or mark), exact products. Non-trivial: the case closes a position to exactly '
        'zero and re-opens it, or flips long<->short in one fill; distinct = distinct (request kind, side) sequence.'
        ' Widened after seeded changes: 15% of the ladders use positions of 1e5-5e6 units reduced to / flipped by a few units; several portfolios holding the same asset; repeated marks at one instant.')
RULE += " Six portfolio-construction driver cases per broker shard: after each portfolio construction (nothing submitted yet) broker.get_portfolio_as_dict must equal the portfolio's own report and contain no zero-quantity entry."
RULE += ' Kept handles and emptied/kept report copies as in C01 (also in the portfolio-level ladders).'
RULE += ' A refused request must leave the holdings report unchanged. Composite: a market-neutral book (long q / short q quoted alike, both legs re-marked at the same mid: market value exactly 0.0), then the quotes part and the clock moves on.'
RULE += ' Directed scripts: a held asset, its value asked for, re-quoted, then an update that re-marks it and aborts on an unpriced order - the valuation is read right after the abort and again after the next update.'
RULE += ' Round 11: valid direct marks with int prices and hand-made transactions with int commissions / prices; a refused direct fill or mark (often one that would have closed the position) must leave the holdings report alone (holdings-changed-by-refused-request now also for pf_txn / pf_mark).'
RULE += ' Round 12: six (thorough: 300) wide portfolios per broker shard - 15, 16, 17, 30 or 64 assets held at once, half of them with a twin holding (same fills, same mark): market value = sum of quantity x latest price, equity = cash + market value.'
ASSUMPTIONS = [
    'market value is one float multiplication: compared at 1e-12 relative; sums at 1e-9',
    'icontract class invariants (no flat position kept; equity == cash + market value) are evaluated on every '
    'public call of PositionHandler / Portfolio and reported as contract_evaluations',
]
EXHAUSTIVE = {'quick': 'all 6^4 = 1296 (side x size-class) fill patterns, 2 random draws each',
              'thorough': 'all 6^6 = 46656 (side x size-class) fill patterns, 3 random draws each'}


def plan(tier, seed):
    specs = _common.ladder_specs(seed, tier)
    specs += _common.split(seed, 8, 240 if tier == 'quick' else 20000, 40 if tier == 'quick' else 900, kind='broker')
    return specs


def run_shard(spec, acc):
    if spec['kind'] == 'ladder':
        ladderwl.shard_ladders(spec, acc, PROP)
        import random
        from qsmon import core
        rng = random.Random(spec['rng'] + 77)
        for i in range(100 if spec['tier'] == 'quick' else 4000):
            case = ladderwl.position_case(rng)
            core.guarded(PROP, acc, case, ladderwl.run_position_case, case, acc, PROP)
            acc.evaluations += 1
    else:
        brokerwl.shard_broker(spec, acc, PROP, 'benign')
        import random
        from qsmon import core
        rngw = random.Random(spec['rng'] + 7)
        for _ in range(6 if spec['tier'] == 'quick' else 300):
            sp = ladderwl.wide_portfolio_script(rngw)
            core.guarded(PROP, acc, {'wide_portfolio': sp}, ladderwl.wide_portfolio_case, sp, acc, PROP)
        # the holdings report read between a portfolio construction and the next update (a rebalance that only looks)
        import random
        from qsmon import core, pcmwl
        rng = random.Random(spec['rng'] + 99)
        for i in range(6 if spec['tier'] == 'quick' else 300):
            case = pcmwl.gen_case(rng)
            case['via_qts'] = False
            try:
                pcmwl.run_case(case, acc, report_prop=PROP)
            except core.Violation as v:
                if v.prop == PROP:
                    acc.violation(v, {'kind': 'pcm', 'case': case})


def replay(case, acc):
    if 'wide_portfolio' in case:
        from qsmon import core
        core.guarded(PROP, acc, case, ladderwl.wide_portfolio_case, case['wide_portfolio'], acc, PROP)
        return
    if case.get('kind') == 'pcm':
        from qsmon import core, pcmwl
        try:
            pcmwl.run_case(case['case'], acc, report_prop=PROP)
        except core.Violation as v:
            if v.prop == PROP:
                acc.violation(v, case)
    elif case.get('kind') == 'position':
        from qsmon import core
        core.guarded(PROP, acc, case, ladderwl.run_position_case, case, acc, PROP)
    else:
        brokerwl.run_case(case, acc, PROP)


def finish(acc, tier):
    out = []
    if acc.counters.get('C02:position_checks', 0) == 0:
        out.append('no position was ever checked')
    want = 6 ** (4 if tier == 'quick' else 6)
    if acc.counters.get('ladder_patterns_completed', 0) < want:
        out.append('only %d of %d ladder patterns completed' % (acc.counters.get('ladder_patterns_completed', 0), want))
    return out
