from qsmon import sizerwl
from qsmon.props import _common

PROP = 'C11'
LEVEL = 'exploration'


def plan(tier, seed):
    return _common.split(seed, 16, 16000 if tier == 'quick' else 1600000, 40 if tier == 'quick' else 1200)


def run_shard(spec, acc):
    sizerwl.shard(spec, acc, PROP)


def replay(case, acc):
    sizerwl.run_case(case, acc, PROP)


def finish(acc, tier):
    out = []
    if acc.counters.get('%s:calls_checked' % PROP, 0) == 0:
        out.append('no sizing call checked')
    if not any(k.startswith('%s:rejections/' % PROP) for k in acc.counters):
        out.append('no rejection exercised')
    return out

__doc__ = """C11 - long/short sizing respects gross leverage and the sign of every weight."""
RULE = ('Direct calls of the real LongShortLeveragedOrderSizer through a real SimulatedBroker/Portfolio with a '
        'harness-owned price handler: 1-8 assets, signed weights (half negative), all-zero vectors, zero-net but '
        'non-zero-gross vectors, prices 0.01-5000, equity 1e2-1e9, leverage {0.01, 0.5, 1, 2, 5, U}, zero or '
        'percentage fees; 12% invalid inputs (leverage <= 0, NaN price). Also: 1-3 further calls on the SAME sizer object with other weights/prices (half through the same dict changed in place); '
        'sizing through the sizer wired by BacktestTradingSession/QuantTradingSystem with the configured buffer/leverage (incl. buffer 0.0 and 1.0); '
        'a real CSV source whose leading rows are blank (sizing in that gap must be rejected). Oracle in exact rationals: q is an int with the '
        'sign of its weight (or 0), equal to trunc(trunc(after-fee dollars)/price) toward zero (neighbours accepted '
        'within 1e-9 of an integer), hence |q|*p <= A and (|q|+1)*p > A-1, and sum |q|*p <= L x equity x (1+f). '
        'Non-trivial: >= 2 assets, some non-zero weight, percentage fees; distinct = distinct input.')
RULE += " In half of the cases the weight dict's keys are in shuffled (non-alphabetical) insertion order."
RULE += ' 6% near-unit cases: one asset priced 6e4-5e5 whose allocation is 1.2 currency units to 5e-5 of a unit short of a whole number of units.'
RULE += ' 8% of the cases use plain integer weights (+-1, +-2, 0).'
RULE += ' Every returned target portfolio is overwritten by the caller (quantity 250 everywhere) before the sizer is used again; in a third of the percentage-fee cases the fee model object gets its rates only after the broker was built with it.'
RULE += ' Round 11: as C10 (gap after later use; partitioned CSV sources).'
RULE += ' Round 12: as C10. Target quantities beyond 2**53 are not judged (see DESIGN 8.3).'
RULE += ' Round 13: as C10 (sizes after refused calls judged against the budget).'
ASSUMPTIONS = ['weights whose gross exposure is within 1e-8 of zero are used unscaled, as the code documents']
