"""C14 - a session trades only at scheduled rebalances after burn-in; equity is daily."""
import random
import time

from qsmon import sesswl
from qsmon.props import _common

PROP = 'C14'
LEVEL = 'exploration'
RULE = ('Full sessions over synthetic markets with start in {00:00, 09:00, 14:30}, end 23:59, burn-in in {absent, before '
        'the start, exactly on a 21:00 instant, 20:59, 21:01, 00:00 or 14:30 of a random day}, every rebalance kind '
        '(buy-and-hold with a 14:30 start), fixed / universe-driven / top-N momentum / SMA-trend / inverse-volatility / '
        'momentum-sign alpha models, static and dynamic universes, both sizers, fees. Oracle: independent datetime '
        'calendar for schedule, clock and equity dates; portfolio-construction instants recorded at its boundary must '
        'equal (schedule and clock and >= burn-in); fills only at 14:30 clock events and never before the first such '
        'instant; every equity value recomputed from the cash and holdings observed at that sample and the CSV\'s own '
        'close of that day; allocation table == forward fill of the latest recorded row on the equity dates. '
        'Non-trivial: a session with a burn-in that cuts >= 1 scheduled instant or >= 2 rebalances; distinct = config signature.'
        ' Start times also 09:30:15, 09:30:00.25 and 14:29:59.999999.')
RULE += " The instants given to broker.update (consecutive duplicates removed) must be exactly the clock of (start, end). Each recorded allocation row must carry the alpha model's weight for every asset it named and 0.0 for every other universe member or held asset. 15% two-source sessions, 35% default-data-handler sessions as in C08."
RULE += ' A portfolio construction that records no allocation row is a violation. 40% of the sessions mix UTC spellings between start and end.'
RULE += " Sessions take portfolio_id from {default, 'master', 'p-1'}; the 'switch' alpha is among the alpha kinds."
RULE += " Equity curve reworked by the caller and read again, caller's weights unchanged (as C08); a quarter of the dynamic universes are a user-defined Universe subclass."
RULE += " Before run() a session is, in turn, left alone / its clock walked to the first close / its signals' asset lists refreshed twice / its empty account asked for equity. After the repeat-period session the FIRST session's equity curve and allocation rows are read again and must be what they were."
RULE += ' Round 11: markets with one-session crashes / spikes (sessions whose equity goes below zero are followed to the end); both sizing keywords passed.'
RULE += ' Round 13: the equity curve is also read at every rebalance DURING the run (as draw-down control would) and must hold one point per close so far; a sampling hook that is never reached is counted, not alarmed.'
ASSUMPTIONS = ['at least one close after burn-in (an empty equity curve is outside the quantifier)',
               'start time-of-day 00:00-14:30, end 23:59 as documented']
ALPHAS = ('fixed', 'single', 'topn_mom', 'sma_trend', 'inv_vol', 'mom_sign', 'switch')


def plan(tier, seed):
    return _common.split(seed, 16, 256 if tier == 'quick' else 20000, 60 if tier == 'quick' else 1500)


def run_shard(spec, acc):
    rng = random.Random(spec['rng'])
    t_end = time.time() + spec['budget_s']
    for i in range(spec['cases']):
        if time.time() > t_end:
            acc.count('stopped_on_time_budget')
            break
        cfg = sesswl.gen_cfg(rng, alpha_kinds=ALPHAS, universe_kinds=('static', 'dynamic'),
                             max_days=60 if spec['tier'] == 'quick' else 250, long_eom=True)
        tr, _ = sesswl.run_case(cfg, acc, PROP)
        if i % 5 == 2:
            # the same period again in the same process (other alpha model, no burn-in): schedules are values, not state
            cfg2 = dict(cfg, burn_in=None, alpha={'kind': 'fixed', 'weights': {a: 1.0 for a in sorted(('EQ:' + s_) for s_ in cfg['market']['assets'])[:2]}},
                        universe={'kind': 'static', 'assets': ['EQ:' + s_ for s_ in cfg['market']['assets']]})
            if 'late' not in cfg['market']:
                first = None
                if tr.session is not None and tr.error is None:
                    first = (tr.session.get_equity_curve().copy(), [dict(x) for x in tr.session.target_allocations])
                sesswl.run_case(cfg2, acc, PROP)
                acc.count('C14:repeat_period_sessions')
                if first is not None:
                    # what the FIRST session reports is still its own after another session has run in the process
                    again = tr.session.get_equity_curve()
                    if list(again.index) != list(first[0].index) or list(again['Equity']) != list(first[0]['Equity']) or \
                            [dict(x) for x in tr.session.target_allocations] != first[1]:
                        from qsmon import core
                        acc.violation(core.Violation(PROP, 'first-session-changed-by-a-later-one', 'after a second session ran, the first '
                                                     'session reports %d equity points (%s ..) and %d allocation rows; right after its own run '
                                                     'it reported %d (%s ..) and %d' % (len(again.index), list(again.index)[:1],
                                                                                        len(tr.session.target_allocations), len(first[0].index),
                                                                                        list(first[0].index)[:1], len(first[1])), {}), cfg)
                    acc.count('C14:first_sessions_re_read_after_a_second_one')
        acc.evaluations += 1
        acc.count('sessions:%s' % cfg['rebalance'])
        acc.count('sessions:alpha:%s' % cfg['alpha']['kind'])
        if cfg.get('burn_in'):
            acc.count('sessions:with_burn_in')
            acc.see('C14:burn_in_time_of_day', cfg['burn_in'][11:16])
        if len(tr.pcm) >= 2 or cfg.get('burn_in'):
            acc.nontriv(PROP, sesswl.cfg_signature(cfg), cfg.get('burn_in'))
        if i < 1:
            acc.sample(cfg)


def replay(case, acc):
    sesswl.run_case(case, acc, PROP)


def finish(acc, tier):
    out = []
    for k in ('C14:rebalance_instants_checked', 'C14:equity_points_checked', 'C14:allocation_rows_checked', 'C14:fills_checked'):
        if acc.counters.get(k, 0) == 0:
            out.append('%s never evaluated' % k)
    if acc.counters.get('sessions:with_burn_in', 0) == 0:
        out.append('no session with burn-in')
    return out
