"""Shard planning helpers shared by the property modules."""


def split(seed, nshards, total, budget_s, **extra):
    specs = []
    per = max(1, total // nshards)
    for i in range(nshards):
        d = {'shard': i, 'rng': seed * 1000003 + i * 7919 + 17, 'cases': per, 'budget_s': budget_s}
        d.update(extra)
        specs.append(d)
    return specs


def ladder_specs(seed, tier, k_quick=4, k_thorough=6, nshards=16):
    from qsmon import ladderwl
    k = k_quick if tier == 'quick' else k_thorough
    n = ladderwl.n_patterns(k)
    specs = []
    step = (n + nshards - 1) // nshards
    for i in range(nshards):
        lo, hi = i * step, min(n, (i + 1) * step)
        if lo >= hi:
            continue
        specs.append({'kind': 'ladder', 'k': k, 'lo': lo, 'hi': hi, 'draws': 2 if tier == 'quick' else 3,
                      'random': 6 if tier == 'quick' else 120,
                      'rng': seed * 1000003 + 500 + i, 'budget_s': 40 if tier == 'quick' else 900})
    return specs
