"""C01 - cash is conserved across master account, portfolios and fills."""
from qsmon import brokerwl, ladderwl
from qsmon.props import _common

PROP = 'C01'
LEVEL = 'exploration'
RULE = ('Random operation sequences (10-200 requests) against the real SimulatedBroker with a harness-owned '
        'quote book: account/portfolio subscribe and withdraw, portfolio creation (1-4), orders of either sign, '
        'clock updates on a hostile time grid (incl. updates that go back in time, after which transfers are requested '
        'while the broker clock is behind a portfolio clock), quote moves, ExecutionHandler calls, refused requests; plus '
        'portfolio-level random ladders. After EVERY request a shadow ledger in exact rationals is compared with '
        'all balances, the account aggregates and the event history. A case is non-trivial when it has >=1 fill, '
        '>=1 transfer in each direction and >=2 portfolios; distinct = distinct (request kind, side) sequence.'
        ' Widened after seeded changes: base currency in {USD, GBP, EUR}; order ids repeated across portfolios (every delivered fill must belong to an order pending in THAT portfolio); very large positions; tiny (sub-cent) amounts.')
RULE += ' Portfolio ids are created in a shuffled (non-alphabetical) order in half of the cases.'
RULE += " 8% of the cases are an account with a single portfolio whose id is 'master' (the key under which the reports give their total)."
RULE += " The caller keeps every object it was handed (Portfolio objects, the holdings mapping, Position objects, holdings reports) and checks at every later snapshot that they still describe the same account; its own copies (list_all_portfolios(), every second holdings report incl. the per-asset entries) are emptied. A subscription of exactly a negative balance's shortfall is generated when a portfolio is overdrawn; 4% of the time steps add 1-999 ns."
RULE += ' A fifth of the cases use odd-case / colliding asset symbols (EQ:spy, EQ:Brk.b, EQ:AAA next to EQ:aaa); two of the start instants lie before 1970.'
RULE += ' A third of the direct transactions are created first and given their commission afterwards (public attribute). 15% of the quote changes arrive through ANOTHER data handler object assigned to broker.data_handler.'
RULE += ' Round 11: 12% of the cases run with warnings escalated to errors; 12% use free-text portfolio ids (\'p%1\', \'100%s\', \'a b\', "p\'4"); valid direct marks / transactions with whole-number prices and commissions given as ints, and fills without a positive price in a held asset (refused), are part of every fault mode; a hand-made transaction is booked in the ledger with the quantity, price and commission the harness put in.'
RULE += ' Round 12: every fifth shard runs with decimal.getcontext().prec = 6, loud cases print to an ASCII-only console; one portfolio-ladder shard in four first drives a portfolio through 2**16 + k fills (k < 900) and reads its whole history (length, first event, last running balance).'
ASSUMPTIONS = [
    'fills are taken as the Transaction delivered to Portfolio.transact_asset (price, signed quantity, commission); '
    'that these equal quote and fee model is C05',
    'float balances are compared with the exact ledger at 1e-9 relative to the gross flow (measured error ~1e-14)',
    'history amounts: within half a cent of the exact value and a multiple of 0.01 (any correct rounding mode)',
    'the NaN date index of history_to_df() is not part of the statement and is not checked',
]


def plan(tier, seed):
    n = 480 if tier == 'quick' else 48000
    specs = _common.split(seed, 16, n, 45 if tier == 'quick' else 1200, kind='broker')
    for i in range(4):
        specs.append({'kind': 'pladder', 'rng': seed * 1000003 + 900 + i, 'cases': 25 if tier == 'quick' else 1500,
                      'budget_s': 45 if tier == 'quick' else 1200})
    return specs


def run_shard(spec, acc):
    import random
    if spec['kind'] == 'broker':
        brokerwl.shard_broker(spec, acc, PROP, 'benign+back')
    else:
        rng = random.Random(spec['rng'])
        if spec['rng'] % 4 == 0:
            # one shard in four: a portfolio that has been trading for years (more than 2**16 cash movements)
            from qsmon import core
            sp = {'start': '2019-01-02 15:00:00+00:00', 'cash': 1e6, 'n': 2 ** 16 + rng.randint(10, 900)}
            core.guarded(PROP, acc, {'long_history': sp}, ladderwl.long_history_case, sp, acc)
        for _ in range(spec['cases']):
            ladderwl.random_ladder(rng, acc, PROP, rng.choice([20, 60, 150]), faults=False)


def replay(case, acc):
    if 'long_history' in case:
        from qsmon import core
        core.guarded(PROP, acc, case, ladderwl.long_history_case, case['long_history'], acc)
        return
    brokerwl.run_case(case, acc, PROP)


def finish(acc, tier):
    out = []
    if acc.counters.get('hook:transact_asset', 0) == 0:
        out.append('the transaction hook on Portfolio.transact_asset was never reached')
    if acc.counters.get('C01:aggregate_checks', 0) == 0 or acc.counters.get('C01:history_events_checked', 0) == 0:
        out.append('aggregate or history monitors never evaluated')
    return out
