from qsmon import sizerwl
from qsmon.props import _common

PROP = 'C10'
LEVEL = 'exploration'


def plan(tier, seed):
    return _common.split(seed, 16, 16000 if tier == 'quick' else 1600000, 40 if tier == 'quick' else 1200)


def run_shard(spec, acc):
    sizerwl.shard(spec, acc, PROP)


def replay(case, acc):
    sizerwl.run_case(case, acc, PROP)


def finish(acc, tier):
    out = []
    if acc.counters.get('%s:calls_checked' % PROP, 0) == 0:
        out.append('no sizing call checked')
    if not any(k.startswith('%s:rejections/' % PROP) for k in acc.counters):
        out.append('no rejection exercised')
    return out

__doc__ = """C10 - long-only sizing never budgets more than the cash-buffered equity."""
RULE = ('Direct calls of the real DollarWeightedCashBufferedOrderSizer through a real SimulatedBroker/Portfolio (equity '
        'and fee model are the real ones) with a harness-owned price handler: 1-8 assets, weights from {0, 1, k/10, '
        'U(0,3), tiny, huge}, all-zero and ~zero-sum vectors, prices 0.01-5000 incl. integers, equity 1e2-1e9, buffer '
        '{0, 0.05, 0.5, 1, U(0,1)}, zero or percentage fees with total rate <= 1; 12% invalid inputs (negative weight, '
        'buffer outside [0,1], NaN price). Also: 1-3 further calls on the SAME sizer object with other weights/prices (half through the same dict changed in place); '
        'sizing through the sizer wired by BacktestTradingSession/QuantTradingSystem with the configured buffer/leverage (incl. buffer 0.0 and 1.0); '
        'a real CSV source whose leading rows are blank (sizing in that gap must be rejected). Oracle in exact rationals: q is a non-negative int equal to '
        'floor(normalised share x (1-buffer) x equity x (1-f) / price) (both neighbours accepted within 1e-9 of an '
        'integer, counted as ambiguous_boundary), hence q*p + f*alloc <= alloc < (q+1)*p + f*alloc and the whole target '
        '<= (1-buffer) x equity. Non-trivial: >= 2 assets, some non-zero weight, percentage fees; distinct = distinct input.')
RULE += " In half of the cases the weight dict's keys are in shuffled (non-alphabetical) insertion order."
RULE += ' 6% near-unit cases: one asset priced 6e4-5e5 whose allocation is 1.2 currency units to 5e-5 of a unit short of a whole number of units.'
RULE += ' 8% of the cases use plain integer weights (1, 2, 0).'
RULE += ' Every returned target portfolio is overwritten by the caller (quantity 250 everywhere) before the sizer is used again; in a third of the percentage-fee cases the fee model object gets its rates only after the broker was built with it.'
RULE += ' 40% of the later calls of a long-only sizer follow a re-assignment of sizer.cash_buffer_percentage (documented as modifiable), which stays in force.'
RULE += ' Round 11: after the sizer has served a later instant it is asked again inside the leading gap (must raise again); two CSV sources over one directory restricted to symbol lists (one often empty): an asset given to no source is rejected, the others are sized at the price of the source they were given to.'
RULE += ' Round 12: the unserved file of the partition check is named CC, AAX or BB.L (its name may begin with a served symbol).'
RULE += ' Round 13: the CSV-gap script holds a third asset that sorts before the unpriced one and doubles daily; the sizes returned after calls refused inside the gap are judged against the budget.'
ASSUMPTIONS = ['total fee rate <= 100% (above it every after-fee budget is negative)',
               'weights whose sum is within 1e-8 of zero are used unscaled, as the code documents']
