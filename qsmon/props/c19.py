"""C19 - assets trade only while they belong to the universe."""
import datetime as dt
import random
import time

import pandas as pd

from qsmon import core, market, pcmwl, sesswl
from qsmon.props import _common

PROP = 'C19'
LEVEL = 'exploration'
RULE = ('(a) unit level: the real DynamicUniverse probed at entry-1min, entry-1us, entry, entry+1us, entry+1min, far '
        'before/after for random entry maps incl. None entries; StaticUniverse; FixedWeightPortfolioOptimiser and '
        'EqualWeightPortfolioOptimiser on 1-12 keys and scales {0.5,1,2,U}; (b) session level: SingleSignalAlphaModel + '
        'DynamicUniverse over every schedule, both sizers, fees, with entries before the start, exactly on a rebalance '
        'instant, one minute after / before it, between instants, after the end, or None; all assets have data for the '
        'whole session so membership is the only reason not to trade; (c) portfolio-construction level: ONE real '
        'StaticUniverse object lives through 3-8 rebalances of a portfolio that also holds assets outside it - it must '
        'keep yielding exactly its configured list, outsiders get weight 0, are sold and never re-ordered. At every rebalance the recorded allocation row, '
        'orders, holdings and every fill are checked against the entry map (entry <= t inclusive; member from the first '
        'such rebalance onward). Non-trivial: a session in which some asset enters strictly inside the run; distinct = '
        'config signature + entry map.'
        ' Optimisers are also called repeatedly on the same object with the same dict changed in place, and with all-integer weights.')
RULE += " Unit part: signals built on a StaticUniverse are hand-fed prices (also for a non-member reference asset) and the universe must still yield its configured list. Every sixth session: start and end given as plain dates (00:00), the session's own default data handler, daily rebalance and one asset entering on the last simulated day."
RULE += ' PCM-level part: half of the cases use the EqualWeightPortfolioOptimiser (members share the scale, nobody else gets a weight). Sessions: every cell of get_target_allocations() must follow the recorded rows.'
RULE += ' Unit part also: entries far in the future (2300-9000) in 15% of the maps; one SingleSignalAlphaModel object asked at every probe instant (also twice on one day around an entry) must weight exactly the members.'
RULE += " Unit part also: null timestamps (pd.NaT) as entry dates; the dict SingleSignalAlphaModel returns and the equal-weight optimiser's answer are emptied/extended by the caller before the next call; the static universe is built from a shuffled caller list that must keep its order after a signal was built on it."
RULE += ' Unit part also: entry instants converted to second / millisecond / nanosecond resolution or rebuilt from a date.'
RULE += ' 30% of the unit probes re-assign StaticUniverse.asset_list and FixedSignalsAlphaModel.signal_weights after first use and expect the new values.'
RULE += ' Round 11: for every member with an entry date, the first scheduled rebalance at or after the entry (burn-in inclusive) ran and its target allocation carries the asset.'
RULE += ' Round 12: a quarter of the single-signal sessions use a signal of 1e-9 (a tiny but genuine weight: recorded as given).'
ASSUMPTIONS = ['UTC timestamps']


def unit_probe(rng, acc):
    core.boot()
    from qstrader.asset.universe.dynamic import DynamicUniverse
    from qstrader.asset.universe.static import StaticUniverse
    from qstrader.portcon.optimiser.equal_weight import EqualWeightPortfolioOptimiser
    from qstrader.portcon.optimiser.fixed_weight import FixedWeightPortfolioOptimiser
    n = rng.randint(1, 8)
    assets = ['EQ:U%d' % i for i in range(n)]
    base = pd.Timestamp('2015-01-01', tz='UTC') + pd.Timedelta(days=rng.randint(0, 3000), minutes=rng.randint(0, 1439))
    entries = {}
    for a in assets:
        r = rng.random()
        entries[a] = None if r < 0.15 else base + pd.Timedelta(days=rng.randint(-30, 30), minutes=rng.choice([0, 0, 1, 870, 1260]))
    if rng.random() < 0.2:
        # entry instants as they come out of other sources: built from a date (second resolution) or from a
        # nanosecond-resolution column - the same instants, other units
        for a in rng.sample(assets, rng.randint(1, len(assets))):
            if entries[a] is not None:
                entries[a] = entries[a].as_unit(rng.choice(['s', 'ms', 'ns'])) if rng.random() < 0.7 else \
                    pd.Timestamp(entries[a].date(), tz='UTC')
    if rng.random() < 0.12:
        entries[rng.choice(assets)] = pd.NaT           # "no entry date" as a date table gives it (a null timestamp)
    if rng.random() < 0.15:
        # "not listed yet" placeholders far in the future (pandas keeps such instants at a coarser resolution)
        entries[rng.choice(assets)] = pd.Timestamp(rng.choice(['2999-01-01', '2300-06-30 14:30', '9000-12-31']), tz='UTC')
    uni = DynamicUniverse(dict(entries))
    probes = [base - pd.Timedelta(days=4000), base + pd.Timedelta(days=4000)]
    for e in entries.values():
        if e is not None:
            probes += [e - pd.Timedelta(minutes=1), e - pd.Timedelta(microseconds=1), e, e + pd.Timedelta(microseconds=1),
                       e + pd.Timedelta(minutes=1)]
    for t in probes:
        got = uni.get_assets(t)
        want = [a for a in assets if entries[a] is not None and entries[a] is not pd.NaT and entries[a] <= t]
        if sorted(got) != sorted(want) or len(got) != len(set(got)):
            bad = sorted(set(got) ^ set(want))
            a = bad[0] if bad else None
            key = 'none-entry-included' if a is not None and entries.get(a) is None else \
                ('boundary' if a is not None and entries[a] == t else 'membership')
            raise core.Violation(PROP, 'universe/%s' % key, 'DynamicUniverse.get_assets(%s) = %s, entry map says %s (entries %s)'
                                 % (t, got, want, {k: str(v) for k, v in entries.items()}), {})
        acc.count('C19:universe_probes')
    # one alpha-model object asked at several instants - also twice on one calendar day, before and after an entry
    from qstrader.alpha_model.single_signal import SingleSignalAlphaModel
    sig_w = rng.choice([1.0, 0.5, -1.0])
    model = SingleSignalAlphaModel(uni, signal=sig_w)
    order = sorted(probes) if rng.random() < 0.7 else list(probes)
    for t in order:
        got_w = model(t)
        want = {a: sig_w for a in assets if entries[a] is not None and entries[a] is not pd.NaT and entries[a] <= t}
        if dict(got_w) != want:
            raise core.Violation(PROP, 'single-signal-model/members', 'SingleSignalAlphaModel at %s weights %s, the universe holds %s '
                                 '(entries %s)' % (t, sorted(got_w), sorted(want), {k: str(v) for k, v in entries.items()}), {})
        got_w.clear()                      # the caller's dict: emptied, extended - the next answer is unaffected
        got_w['EQ:SCRIBBLE'] = 9.0
        acc.count('C19:alpha_model_probes')
    assets = list(assets)
    if rng.random() < 0.5:
        rng.shuffle(assets)                # the caller's list is not in alphabetical order - and stays as the caller wrote it
    caller_list = list(assets)
    st = StaticUniverse(caller_list)
    for t in probes[:3]:
        if list(st.get_assets(t)) != assets:
            raise core.Violation(PROP, 'static-universe', 'StaticUniverse returned %s for %s' % (st.get_assets(t), assets), {})
    if rng.random() < 0.3:
        # the configured list is re-assigned on a universe that has already been asked (asset_list is its one public
        # attribute): it yields exactly the NEW list; the same for the weights of a fixed-signals alpha model
        from qstrader.alpha_model.fixed_signals import FixedSignalsAlphaModel
        st2 = StaticUniverse(list(assets))
        st2.get_assets(probes[0])
        new_list = list(assets[: max(1, len(assets) - 1)]) + ['EQ:NEWCOMER']
        st2.asset_list = new_list
        if list(st2.get_assets(probes[1])) != new_list:
            raise core.Violation(PROP, 'static-universe/reconfigured', 'StaticUniverse.asset_list was set to %s after first use; '
                                 'get_assets yields %s' % (new_list, st2.get_assets(probes[1])), {})
        w1 = {a: 1.0 for a in assets}
        fx = FixedSignalsAlphaModel(dict(w1))
        if dict(fx(probes[0])) != w1:
            raise core.Violation(PROP, 'fixed-signals-model', 'FixedSignalsAlphaModel(%s) returned %s' % (w1, fx(probes[0])), {})
        w2 = {a: 0.25 for a in new_list}
        fx.signal_weights = dict(w2)
        if dict(fx(probes[1])) != w2:
            raise core.Violation(PROP, 'fixed-signals-model/reconfigured', 'signal_weights was set to %s after first use; the model '
                                 'returns %s' % (w2, fx(probes[1])), {})
        acc.count('C19:objects_reconfigured_after_first_use')
    if rng.random() < 0.2:
        # signals built on the static universe, seeded by hand with prices (also for a reference asset that is not a
        # member): the universe keeps yielding its configured list
        from qstrader.signals.momentum import MomentumSignal
        from qstrader.signals.sma import SMASignal
        sig = rng.choice([SMASignal, MomentumSignal])(base, st, lookbacks=[rng.randint(1, 5)])
        for a in rng.sample(assets, min(2, len(assets))) + ['EQ:BENCH']:
            sig.append(a, rng.uniform(5, 50))
        if rng.random() < 0.5:
            sig.update_assets(base)
        if caller_list != assets:
            raise core.Violation(PROP, 'static-universe/callers-list-reordered', 'the list %s the caller built the universe from reads %s '
                                 'after a signal was built on that universe' % (assets, caller_list), {})
        for t in probes[:3]:
            if list(st.get_assets(t)) != assets:
                raise core.Violation(PROP, 'static-universe/after-signal-append', 'StaticUniverse configured with %s returns %s '
                                     'after prices were appended to a signal built on it' % (assets, st.get_assets(t)), {})
        acc.count('C19:static_universe_after_signal_appends')
    k = rng.randint(1, 12)
    w = {'EQ:W%d' % i: rng.choice([0.0, 1.0, -0.5, rng.uniform(-2, 2)]) for i in range(k)}
    if rng.random() < 0.25:
        w = {a: rng.choice([1, 1, -1, 0, 2, True]) for a in w}          # signal=1 style: every value an int/bool
    out = FixedWeightPortfolioOptimiser()(base, initial_weights=dict(w))
    if out != w:
        raise core.Violation(PROP, 'fixed-weight-optimiser', 'fixed-weight optimiser turned %s into %s' % (w, out), {})
    scale = rng.choice([0.5, 1.0, 2.0, round(rng.uniform(0.1, 5), 3), 0.0, 0])
    out = EqualWeightPortfolioOptimiser(scale=scale)(base, initial_weights=dict(w))
    if set(out) != set(w):
        raise core.Violation(PROP, 'equal-weight-keys', 'equal-weight optimiser keys %s for %s' % (sorted(out), sorted(w)), {})
    vals = list(out.values())
    if any(v != vals[0] for v in vals) or abs(sum(vals) - scale) > 1e-9 * max(1.0, scale) or abs(vals[0] - scale / k) > 1e-12 * max(scale, 1e-300):
        raise core.Violation(PROP, 'equal-weight-values', 'equal-weight optimiser gave %s for scale %r over %d assets'
                             % (vals[:3], scale, k), {})
    acc.count('C19:optimiser_checks')
    # the same optimiser objects asked again with the SAME dict object whose keys/values were changed in place
    fixed, equal = FixedWeightPortfolioOptimiser(), EqualWeightPortfolioOptimiser(scale=scale)
    d = dict(w)
    for step in range(3):
        out_f = fixed(base, initial_weights=d)
        out_e = equal(base, initial_weights=d)
        if dict(out_f) != dict(d):
            raise core.Violation(PROP, 'fixed-weight-optimiser/reuse', 'fixed-weight optimiser returned %s for %s on call %d of the '
                                 'same object' % (out_f, d, step + 1), {})
        out_e.clear()                                   # the caller's copy of the first answer, emptied and extended ...
        out_e['EQ:SCRIBBLE'] = 1.0
        out_e = equal(base, initial_weights=d)          # ... and the same question asked again
        if set(out_e) != set(d) or any(abs(v - scale / len(d)) > 1e-12 * max(scale, 1e-300) for v in out_e.values()):
            raise core.Violation(PROP, 'equal-weight/reuse', 'equal-weight optimiser returned %s for keys %s on call %d of the same '
                                 'object (the dict was changed in place between calls)' % (out_e, sorted(d), step + 1), {})
        out_e.clear()
        out_f.clear() if out_f is not d else None
        # change the dict in place: drop one key (if possible), add a new one, change a value
        if len(d) > 1 and rng.random() < 0.7:
            d.pop(rng.choice(sorted(d)))
        d['EQ:N%d_%d' % (step, rng.randint(0, 99))] = rng.uniform(-1, 1)
        k0 = rng.choice(sorted(d))
        d[k0] = d[k0] + 0.25
    acc.count('C19:optimiser_reuse_checks')


def plan(tier, seed):
    specs = _common.split(seed, 4, 8000 if tier == 'quick' else 400000, 40 if tier == 'quick' else 900, kind='unit')
    specs += [dict(s, kind='session', shard=4 + s['shard']) for s in
              _common.split(seed + 1, 10, 160 if tier == 'quick' else 14000, 55 if tier == 'quick' else 1400)]
    specs += [dict(s, kind='pcm', shard=14 + s['shard']) for s in
              _common.split(seed + 2, 2, 120 if tier == 'quick' else 12000, 50 if tier == 'quick' else 1200)]
    return specs


def run_shard(spec, acc):
    rng = random.Random(spec['rng'])
    t_end = time.time() + spec['budget_s']
    for i in range(spec['cases']):
        if i % 16 == 0 and time.time() > t_end:
            acc.count('stopped_on_time_budget')
            break
        if spec['kind'] == 'unit':
            st = rng.getstate()
            try:
                unit_probe(rng, acc)
            except core.Violation as v:
                acc.violation(v, {'kind': 'unit', 'rng_seed': spec['rng'], 'index': i})
            acc.evaluations += 1
            if i % 50 == 0:
                acc.nontriv(PROP, 'unit', spec['rng'], i)
            continue
        if spec['kind'] == 'pcm':
            case = pcmwl.gen_c19_case(rng)
            core.guarded(PROP, acc, {'kind': 'pcm', 'case': case}, pcmwl.run_c19_case, case, acc)
            acc.evaluations += 1
            acc.nontriv(PROP, 'pcm', str(case['static_universe']), str(case['seed_holdings']), case['cash'])
            continue
        cfg = sesswl.gen_cfg(rng, alpha_kinds=('single',), universe_kinds=('dynamic',),
                             max_days=60 if spec['tier'] == 'quick' else 200, n_assets=rng.randint(2, 6), plain_date_end=True)
        if i % 6 == 2:
            # plain dates for start and end, the session's own default data handler, and one asset entering on the last
            # simulated day (whose close is later than the end timestamp itself)
            old_start = cfg['start']
            cfg['start'] = old_start[:10] + ' 00:00:00+00:00'
            cfg['end'] = cfg['end'][:10] + ' 00:00:00+00:00'
            cfg['rebalance'] = 'daily'
            cfg.pop('weekday', None)
            dates = {a: (cfg['start'] if d == old_start else d) for a, d in cfg['universe']['dates'].items()}
            last = [x for x in market.bdays(dt.date.fromisoformat(cfg['start'][:10]), dt.date.fromisoformat(cfg['end'][:10]))][-1]
            names = sorted(dates)
            dates[names[-1]] = '%s %s+00:00' % (last.isoformat(), rng.choice(['14:30:00', '21:00:00', '00:00:00', '09:00:00']))
            if all(d is None or d > cfg['start'] for d in [dates[a] for a in names[:-1]]):
                dates[names[0]] = cfg['start']
            cfg['universe'] = {'kind': 'dynamic', 'dates': dates}
            cfg['default_handler'] = True
            cfg['market']['adjust'] = True
            cfg['market'].pop('late', None)
            cfg.pop('market2', None)
            acc.count('C19:sessions_with_plain_dates_and_an_entry_on_the_last_day')
        if i % 3 == 1:
            # the universe object first serves a session whose alpha model uses a Signal built on it (signals keep and
            # extend the list the universe gave them), then the session under test
            if rng.random() < 0.6:
                # the session under test rebalances at the very instant the earlier signals were created for
                old_start = cfg['start']
                cfg = dict(cfg, rebalance='buy_and_hold', burn_in=None, start=cfg['start'][:10] + ' 14:30:00+00:00')
                cfg.pop('weekday', None)
                cfg['universe'] = {'kind': 'dynamic', 'dates': {a: (cfg['start'] if d == old_start else d)
                                                               for a, d in cfg['universe']['dates'].items()}}
            world = sesswl.make_world(cfg)
            try:
                shared = {'share_universe': True}
                prior = dict(cfg, burn_in=None, alpha={'kind': 'inv_vol', 'lookback': 3} if cfg['long_only'] else {'kind': 'mom_sign', 'lookback': 2})
                sesswl.run_session(prior, world, shared=shared)
                shared.pop('source', None)
                tr = sesswl.run_session(cfg, world, shared=shared)
                core.guarded(PROP, acc, dict(cfg, after_signal_session=True), sesswl.check_c19_session, cfg, world, tr, acc)
                acc.count('C19:sessions_after_a_signal_session_on_the_same_universe')
            finally:
                world.close()
        else:
            tr, _ = sesswl.run_case(cfg, acc, PROP)
        acc.evaluations += 1
        acc.count('sessions:%s' % cfg['rebalance'])
        s, e = pd.Timestamp(cfg['start']), pd.Timestamp(cfg['end'])
        inside = [a for a, d in cfg['universe']['dates'].items() if d and s < pd.Timestamp(d) <= e]
        if inside and tr.pcm:
            acc.nontriv(PROP, sesswl.cfg_signature(cfg), tuple(sorted(cfg['universe']['dates'].items(), key=str)))
        if i < 1:
            acc.sample(cfg)


def replay(case, acc):
    if case.get('after_signal_session'):
        cfg = {k: v for k, v in case.items() if k != 'after_signal_session'}
        world = sesswl.make_world(cfg)
        try:
            shared = {'share_universe': True}
            prior = dict(cfg, burn_in=None, alpha={'kind': 'inv_vol', 'lookback': 3} if cfg['long_only'] else {'kind': 'mom_sign', 'lookback': 2})
            sesswl.run_session(prior, world, shared=shared)
            shared.pop('source', None)
            tr = sesswl.run_session(cfg, world, shared=shared)
            core.guarded(PROP, acc, case, sesswl.check_c19_session, cfg, world, tr, acc)
        finally:
            world.close()
    elif case.get('kind') == 'pcm':
        core.guarded(PROP, acc, case, pcmwl.run_c19_case, case['case'], acc)
    elif case.get('kind') == 'unit':
        rng = random.Random(case['rng_seed'])
        for i in range(case['index'] + 1):
            try:
                unit_probe(rng, acc)
            except core.Violation as v:
                acc.violation(v, case)
                return
    else:
        sesswl.run_case(case, acc, PROP)


def finish(acc, tier):
    out = []
    for k in ('C19:universe_probes', 'C19:optimiser_checks', 'C19:rebalances_checked'):
        if acc.counters.get(k, 0) == 0:
            out.append('%s never evaluated' % k)
    need = {'exactly-on', 'minute-after', 'before', 'after'}
    miss = need - set(acc.sets.get('C19:entry_vs_rebalance', ()))
    if miss:
        out.append('entry/rebalance alignments never seen: %s' % sorted(miss))
    return out
