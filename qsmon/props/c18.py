"""C18 - identical inputs give identical results."""
from qsmon import pairwl
from qsmon.props import _common

PROP = 'C18'
LEVEL = 'exploration'
SHARD_TIMEOUT = {'quick': 400, 'thorough': 3000}
RULE = ('Each configuration is run (a) twice in one process with fresh objects, (b) on a data source / memoised price '
        'lookups that already served another session and a storm of 300 shuffled queries, (d) with fresh objects after an '
        'unrelated session on a different market with the same tickers and dates ran in the same process, (c) in fresh interpreters '
        'started with other PYTHONHASHSEED values (quick {1,2,3} against this process\'s 0; thorough {1..11, random}); '
        'a sha256 over float.hex renderings of the delivered fills (order ids removed), the equity samples and the '
        'allocation rows must be equal. Configurations are chosen to expose iteration order: 5-8 assets with unrelated '
        'names, dynamic universes in which several assets enter at the same rebalance instant, the repository\'s own '
        'top-N momentum alpha model (ties among simultaneous entrants), universe-driven, momentum-sign and '
        'inverse-volatility models, both sizers. Non-trivial: a configuration with >= 2 fills; distinct = (config '
        'signature, entry map).'
        ' Further modes: the same universe object, the same data handler (after it was asked for prices before an asset\'s first bar) and the same alpha model object (weights dict) reused by a second run.')
RULE += ' Before every session case six hand-driven broker scripts (subscriptions, several orders per asset and side with library-generated ids queued while the exchange is closed, clock updates) are run four times in one process and their portfolio histories, cash and holdings compared bit for bit. One case per shard precedes the warmed-source run with 40 000 (almost all distinct) price lookups.'
RULE += " Further modes per case: (g) a session over the same period with a later burn-in runs first from its own objects; (h) with QSTRADER_CSV_DATA_DIR unset, a session started from another market's directory and then one started from this market's directory (documented current-directory fallback) against an explicit-handler reference."
RULE += ' (e2) every other case: a StaticUniverse object first serves a session that comes to hold a non-member, then a membership-driven session - compared with that session on a fresh universe.'
RULE += ' Round 11: directed script per case - a run listing an asset without a price at its first rebalance (ends with the documented ValueError) or after its listing (completes) is repeated after another run of the same process (same listing at weight 0.0; or, with a moving-average model and a burn-in, a run over a later period on the same data handler): same ending, same equity curve bit for bit.'
RULE += ' Round 12: in half of the cases the unrelated earlier session of mode (d) uses another rebalance schedule over the same period (daily <-> end_of_month, weekly -> daily).'
ASSUMPTIONS = ['order identifiers (random uuids) are excluded from the comparison, as the statement says']


def plan(tier, seed):
    if tier == 'quick':
        return _common.split(seed, 12, 24, 120, hashseeds=[1, 2, 3])
    return _common.split(seed, 16, 320, 2400, hashseeds=[1, 2, 3, 4, 5, 6, 7, 8, 9, 10, 11, 'random'])


def run_shard(spec, acc):
    pairwl.shard_c18(spec, acc)


def replay(case, acc):
    if 'hand_driven' in case:
        from qsmon import core
        ops = [tuple(o) for o in case['hand_driven']]
        a = pairwl.run_broker_script(ops)
        for _ in range(5):
            if pairwl.run_broker_script(ops) != a:
                acc.violation(core.Violation('C18', 'hand-driven/history', 'the same script gives different accounts when run again', {}), case)
                return
        acc.count('C18:hand_driven_runs', 5)
        return
    if 'aborting_run' in case:
        from qsmon import core
        try:
            pairwl.aborting_run_case(case['aborting_run'], acc)
        except core.Violation as v:
            acc.violation(v, case)
        return
    pairwl.run_c18_case(case, acc)


def finish(acc, tier):
    out = []
    for k in ('C18:same_process_pairs', 'C18:warmed_source_pairs', 'C18:fresh_interpreter_runs'):
        if acc.counters.get(k, 0) == 0:
            out.append('%s never evaluated' % k)
    if acc.counters.get('C18:fills_in_reference_run', 0) == 0:
        out.append('no fills in any compared run')
    return out
