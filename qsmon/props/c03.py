"""C03 - position P&L reconciles exactly to the cash flows of its fills."""
from qsmon import brokerwl, ladderwl
from qsmon.props import _common

PROP = 'C03'
LEVEL = 'exploration'
RULE = ('(a) every pattern of (buy|sell) x (smaller|equal|larger than the current net position) for k fills on one '
        'asset (6^k patterns; k=4 quick, k=6 thorough) with random prices (0.01-5000, 0-8 decimals), commissions '
        '(zero, flat, proportional), marks and - in one draw per pattern - real-valued (dyadic fractional) quantities, on a real Portfolio, identities checked after every prefix; (b) long '
        'random multi-asset ladders; (c) random broker-level sequences with percentage fees; (d) the Position class used directly, '
        'the same object kept while it passes through exactly zero and trades on; 15% of the ladders use very large positions '
        '(1e5-5e6 units) reduced to / flipped by a few units. Oracle per position '
        'epoch (reset when net returns to 0): exact sums of price x quantity and commission per side; total = market '
        'value - net cost - commissions; unrealised = (price - open-side average cost incl. its commission) x net; '
        'realised = total - unrealised; re-mark leaves realised P&L and quantity bit-identical. Non-trivial: an epoch '
        'with fills on both sides and non-zero commission on both; distinct = distinct (request kind, side) sequence.')
RULE += ' 12% of the proportional commissions are negative (rebates).'
RULE += ' Portfolio-level histories: in a fifth of the cases a second asset mirrors every fill and mark of the first (bit-identical per-position figures).'
RULE += " Kept handles and emptied/kept report copies as in C01 (also in the portfolio-level ladders: Position objects obtained earlier must agree with the portfolio's on quantity, price and total P&L)."
RULE += ' Odd-case / colliding asset symbols in a fifth of the cases.'
RULE += ' Every third step of the direct Position histories rebuilds the position through the public constructor from its own quantities, averages and commissions; the copy must report the same P&L figures.'
RULE += ' Round 11: whole-number commissions arrive as ints too (ladder and broker workloads); after a refused direct fill or mark the (total, realised, unrealised) P&L triple of every portfolio is unchanged (pnl-changed-by-refused-request).'
RULE += " Round 12: wide portfolios as in C02, judged on P&L: total = market value - cost of the fills since each opening - commissions, total = realised + unrealised, and each aggregate equals the sum of the positions' own figures."
ASSUMPTIONS = [
    'tolerance 1e-9 x (sum |price x quantity| + |market value| + commissions + 1); measured error ~1e-14',
    'the statement is algebraic over the reals; monitoring shows it on every path class with many real draws, not for all reals',
]
EXHAUSTIVE = {'quick': 'all 6^4 = 1296 (side x size-class) fill patterns, 2 random draws each',
              'thorough': 'all 6^6 = 46656 (side x size-class) fill patterns, 3 random draws each'}


def plan(tier, seed):
    specs = _common.ladder_specs(seed, tier)
    specs += _common.split(seed, 8, 240 if tier == 'quick' else 20000, 40 if tier == 'quick' else 900, kind='broker')
    return specs


def run_shard(spec, acc):
    if spec['kind'] == 'ladder':
        ladderwl.shard_ladders(spec, acc, PROP)
        import random
        from qsmon import core
        rng = random.Random(spec['rng'] + 99)
        for i in range(150 if spec['tier'] == 'quick' else 6000):
            case = ladderwl.position_case(rng)
            core.guarded(PROP, acc, case, ladderwl.run_position_case, case, acc)
            acc.evaluations += 1
    else:
        brokerwl.shard_broker(spec, acc, PROP, 'benign')
        import random
        from qsmon import core
        rngw = random.Random(spec['rng'] + 7)
        for _ in range(6 if spec['tier'] == 'quick' else 300):
            sp = ladderwl.wide_portfolio_script(rngw)
            core.guarded(PROP, acc, {'wide_portfolio': sp}, ladderwl.wide_portfolio_case, sp, acc, PROP)


def replay(case, acc):
    if 'wide_portfolio' in case:
        from qsmon import core
        core.guarded(PROP, acc, case, ladderwl.wide_portfolio_case, case['wide_portfolio'], acc, PROP)
        return
    if case.get('kind') == 'position':
        from qsmon import core
        core.guarded(PROP, acc, case, ladderwl.run_position_case, case, acc)
    else:
        brokerwl.run_case(case, acc, PROP)


def finish(acc, tier):
    out = []
    if acc.counters.get('C03:position_identity_checks', 0) == 0:
        out.append('no position was ever checked')
    want = 6 ** (4 if tier == 'quick' else 6)
    if acc.counters.get('ladder_patterns_completed', 0) < want:
        out.append('only %d of %d ladder patterns completed' % (acc.counters.get('ladder_patterns_completed', 0), want))
    return out
