"""C08 - a fixed-weight backtest reproduces the documented trading rules exactly."""
import random
import time

from qsmon import sesswl
from qsmon.props import _common

PROP = 'C08'
LEVEL = 'exploration'
RULE = ('Full BacktestTradingSession runs with the fixed-weight alpha model over synthetic CSV markets (1-5 assets, '
        '10-250 business days, optional missing days, adjusted or not, rows shuffled in the files): rebalance in {daily, '
        'weekly x MON..FRI, end_of_month, buy_and_hold@14:30}, long-only with buffers 0-0.5 or long/short with leverage '
        '0.2-5, zero or percentage fees, initial cash 5e3-5e6, start 00:00/09:00/14:30, with and without burn-in, weights '
        'incl. zeros, unnormalised values and assets absent from the weight dict; in 30% of the markets one or two assets cost a '
        'sizeable fraction of the account (targets of 0-10 units, positions that must be sold down to nothing). Every delivered fill (time, asset, '
        'quantity, price, commission), the orders of every rebalance, final cash and holdings and every daily equity '
        'value are compared with an independent reference implementation of the documented rules (csv rows + datetime '
        'calendar + exact rationals; no pandas, no qstrader). Non-trivial: >= 2 rebalances that traded and >= 1 sell; '
        'distinct = (schedule, sizer, fee class, #assets, market seed, burn-in, start time).')
RULE += ' Markets contain blank cells from the fourth row on (rows shuffled in the file); 15% of the sessions read two data sources (composite oracle: first source that has a value); 35% of adjusted single-source sessions pass no data handler and let the session build its own from $QSTRADER_CSV_DATA_DIR.'
RULE += ' The equity curve is obtained once, reworked in place by the caller (rescaled, extra column, new index) and obtained again - the second answer is judged; the weights dict the caller gave the alpha model must be unchanged after the session.'
RULE += ' Round 11: a quarter of the sessions are given the sizing keyword of the other mode as well (ignored by the library); 12% of the markets have one-session crashes / spikes (leveraged and short books can go below zero); zero-volume bars in every file.'
RULE += ' Round 12: 12% of the fixed-weight sessions with two or more assets trade a duplicated series (the second file is a copy of the first) at equal weights.'
ASSUMPTIONS = [
    'markets quote every asset over the whole session (data start before the session start)',
    'integer sizing decisions within 1e-9 of a rounding boundary adopt the implementation\'s value (counted as ambiguous_boundary)',
    'prices 1e-12, cash/equity 1e-9 relative to gross flow',
]


def plan(tier, seed):
    return _common.split(seed, 16, 256 if tier == 'quick' else 24000, 60 if tier == 'quick' else 1500)


def run_shard(spec, acc):
    rng = random.Random(spec['rng'])
    t_end = time.time() + spec['budget_s']
    for i in range(spec['cases']):
        if time.time() > t_end:
            acc.count('stopped_on_time_budget')
            break
        cfg = sesswl.gen_cfg(rng, alpha_kinds=('fixed',), universe_kinds=('static',),
                             max_days=60 if spec['tier'] == 'quick' else 250, expensive=True, nan_cells='inner')
        tr, ref = sesswl.run_case(cfg, acc, PROP)
        acc.evaluations += 1
        acc.count('sessions:%s' % cfg['rebalance'])
        acc.count('sessions:%s' % ('long_only' if cfg['long_only'] else 'long_short'))
        if ref is not None and ref.rebalances_traded >= 2 and ref.sells >= 1:
            acc.nontriv(PROP, sesswl.cfg_signature(cfg))
        if i < 1:
            acc.sample({k: v for k, v in cfg.items()})


def replay(case, acc):
    sesswl.run_case(case, acc, PROP)


def finish(acc, tier):
    out = []
    if acc.counters.get('C08:fills_matched', 0) == 0 or acc.counters.get('C08:equity_points_matched', 0) == 0:
        out.append('no fill / equity point was matched against the reference')
    for k in ('daily', 'weekly', 'end_of_month', 'buy_and_hold', 'long_only', 'long_short'):
        if acc.counters.get('sessions:%s' % k, 0) == 0:
            out.append('no session of kind %s' % k)
    return out
