"""C15 - rejected operations change nothing (fault enumeration)."""
import random

from qsmon import brokerwl, ladderwl
from qsmon.props import _common

PROP = 'C15'
LEVEL = 'fault_enumeration'
RULE = ('Invalid requests of every documented kind (negative amount, over-withdrawal / over-subscription, unknown or '
        'duplicate portfolio id, unsupported currency, order for an unknown portfolio, timestamp earlier than a '
        'portfolio clock, negative price mark) at broker level and directly on Portfolio, injected at random points '
        'of valid traffic - after fills created long/short positions and while orders are pending - and followed by '
        'more valid traffic. A deep snapshot of every listed observable (all cash balances, holdings with all five '
        'fields, pending order ids per queue, history tuples, portfolio ids) is taken before and after EVERY request; '
        'a refused request must leave it bit-identical and raise the documented type; a request the harness '
        'classifies as invalid must not be accepted. Non-trivial: a case with a refusal while positions or pending '
        'orders exist; distinct = distinct (request kind, side) sequence. Cells (fault kind x state class) are listed.'
        ' Also requests timed between a portfolio clock and the later clock of one of its positions (direct Portfolio transactions / marks, broker updates), and transfers/orders while the broker clock is behind a portfolio clock.')
RULE += " Composite pf_mark_ahead: a valid direct Portfolio mark of one held asset at a time ahead of the broker clock, then a broker update to an instant in between (must be refused with nothing re-marked). Directed scripts with the library's own BacktestDataHandler over one or two CSV sources whose first source quotes a held asset negative on one day (optionally another held asset without any data, booked before or after): the update must raise ValueError and change nothing."
RULE += " Refusals are also compared on each holding's own mark (price and the time it carries)."
RULE += ' 30% of the real-handler scripts use a market-neutral book (short q and long q at one price: market value exactly 0.0).'
RULE += " Composite pf_sub_ahead: a valid direct Portfolio subscription at a time ahead of the broker clock (the portfolio's clock moves, the marks of its holdings do not), then a broker update in between - refused, and no holding of any portfolio re-marked."
RULE += " 10% of the cases extend settings.SUPPORTED['CURRENCIES'] after the broker was built and query that currency (ValueError expected); negative marks arrive through a swapped data handler object in 40% of the neg_mark faults."
RULE += ' Round 11: refusal kinds added: an order of quantity 0 for an unknown portfolio, a fill without a positive price in a held asset (often one that would close it), a request through the ExecutionHandler at an instant the broker refuses (must raise, ends the case).'
ASSUMPTIONS = [
    'portfolio/broker clocks are not listed observables: a refused request may advance them',
    'an ExecutionHandler call is a composite (submit accepted, update refused) and is not judged as one request',
    'update(dt earlier than a portfolio clock) that touches no portfolio (nothing held, nothing due) is not a refusal',
]
FAULT_KINDS = ['acct_sub/negative', 'acct_wd/negative', 'acct_wd/over', 'p_sub/negative', 'p_sub/unknown-portfolio',
               'p_sub/over', 'p_wd/negative', 'p_wd/unknown-portfolio', 'p_wd/over', 'create', 'order',
               'get_cash_unknown', 'get_mv_unknown', 'get_eq_unknown', 'get_dict_unknown', 'get_acct_cash_ccy',
               'new_broker', 'update/backwards-clock', 'update/negative-mark', 'pf_sub/backwards-clock',
               'pf_sub/negative', 'pf_wd/backwards-clock', 'pf_wd/negative', 'pf_wd/over', 'pf_txn/backwards-clock',
               'pf_mark/negative', 'pf_mark/backwards-clock', 'pf_txn/behind-position-clock',
               'pf_mark/behind-position-clock']


def plan(tier, seed):
    specs = _common.split(seed, 14, 700 if tier == 'quick' else 42000, 45 if tier == 'quick' else 1200, kind='broker')
    for i in range(2):
        specs.append({'kind': 'pladder', 'rng': seed * 1000003 + 700 + i, 'cases': 40 if tier == 'quick' else 3000,
                      'budget_s': 45 if tier == 'quick' else 1200})
    return specs


def run_shard(spec, acc):
    if spec['kind'] == 'broker':
        brokerwl.shard_broker(spec, acc, PROP, 'all')
    else:
        rng = random.Random(spec['rng'])
        for _ in range(spec['cases']):
            ladderwl.random_ladder(rng, acc, PROP, rng.choice([20, 60, 150]), faults=True)


def replay(case, acc):
    brokerwl.run_case(case, acc, PROP)


def finish(acc, tier):
    out = []
    cells = acc.sets.get('C15:cells', set())
    kinds = {c.split(' @ ')[0] for c in cells}
    miss = [k for k in FAULT_KINDS if k not in kinds]
    if miss:
        out.append('fault kinds never exercised: %s' % miss)
    for k in ('update/backwards-clock', 'p_wd/over', 'p_sub/negative', 'order'):
        for st in ('positions', 'pending', 'positions+pending'):
            if '%s @ %s' % (k, st) not in cells:
                out.append('cell never hit: %s @ %s' % (k, st))
    return out
