"""C17 - performance statistics match their definitions for every equity curve."""
from qsmon import curvewl
from qsmon.props import _common

PROP = 'C17'
LEVEL = 'exploration'
RULE = ('Positive equity curves of length 2-800 on business-day indexes (as date objects, as get_equity_curve() '
        'produces, and as DatetimeIndex) starting anywhere in 1995-2025: random walks with drift, strictly rising, '
        'strictly falling, first-point-is-the-peak, long flat stretches, V-shapes with exact recovery, step curves, '
        'late peaks. The real performance functions, TearsheetStatistics.get_results, JSONStatistics.statistics and '
        'to_file() (parsed back) are compared with definitions computed with math/fractions: aggregates per calendar '
        'period and their compounding to the total return, drawdown_t = 1 - x_t / max_{s<=t} x_s on the very series '
        'the function received, max and longest under-water run, CAGR, Sharpe, Sortino (NaN/inf must agree as '
        'NaN/inf); equity x 2^k must leave every number bit-identical, equity x c (c in 1e-3..1e3) within 1e-6. '
        'Non-trivial: a curve with >= 2 distinct drawdown episodes; distinct = (class, length, first values, start).'
        ' Widened: whole-dollar (int64) curves; annualisation factor periods in {252, 52, 12, 1638}; a benchmark curve always supplied and every block of the JSON export checked against its own curve.')
RULE += ' The chart-formatted copies (monthly_agg_returns_hc, yearly_agg_returns_hc) must carry the same periods and values x 100. One case in forty renders the tearsheet (Agg) with a benchmark that starts 15 business days before the strategy and reads the statistics panel back: total return, CAGR, Sharpe, max drawdown and duration printed for each curve must be those of that curve.'
RULE += ' In half of the cases the caller re-fills the frames it passed to JSONStatistics right after construction (the report must describe the curves as given); what TearsheetStatistics.get_results returned is rescaled in place by the caller and the same object asked again.'
RULE += ' A third of the tearsheet objects get their periods assigned after construction; create_drawdowns is also applied to the raw equity series (first value not 1.0).'
RULE += ' Round 11: the allocation frame given to JSONStatistics starts with 0, 1, 3 or n/2 rows blank in every column; the yearly bars of the rendered tearsheet are read (one per calendar year, each the compounded daily returns of that year); every other figure is drawn for the curve started in mid-December.'
RULE += ' Round 12: a third of the figures are drawn after an earlier tearsheet of another curve whose figure was left open; the JSON month and year aggregates are compared period by period with the observations dated in each period.'
RULE += ' Round 13: every third curve is followed, in the same process, by a sibling with the same dates, first, last, highest and lowest value met in another order.'
ASSUMPTIONS = [
    'Sharpe/Sortino are not compared when the deviation is below 1e-6 of the largest return (quotient of rounding noise)',
    'drawdown duration under arbitrary scaling is compared only on curves without near-ties',
]


def plan(tier, seed):
    return _common.split(seed, 16, 640 if tier == 'quick' else 48000, 50 if tier == 'quick' else 1200)


def run_shard(spec, acc):
    curvewl.shard(spec, acc)


def replay(case, acc):
    curvewl.run_case(case, acc)


def finish(acc, tier):
    out = []
    for k in ('C17:drawdown_checks', 'C17:reporter_checks', 'C17:scale_checks', 'C17:aggregate_checks'):
        if acc.counters.get(k, 0) == 0:
            out.append('%s never evaluated' % k)
    for cls in ('peak_first', 'up', 'down', 'flat'):
        if acc.counters.get('C17:class/%s' % cls, 0) == 0:
            out.append('curve class %s never generated' % cls)
    return out
