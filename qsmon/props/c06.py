"""C06 - market data is point-in-time: a price query never sees a later bar."""
from qsmon import datawl
from qsmon.props import _common

PROP = 'C06'
LEVEL = 'exploration'
RULE = ('Random CSV datasets (1-3 symbols starting on different dates, 1-40 rows, gaps of 1-30 days, rows written in '
        'random order, missing Open / Close cells, adjusted or not, every cell a unique value) loaded by the real '
        'CSVDailyBarDataSource; per dataset one instant in EVERY equivalence class of the answer (each interval '
        'between consecutive open/close events, both sides of every 14:30/21:00 boundary at 1 microsecond, before the '
        'first bar, after the last, far away) is queried through get_bid/get_ask and the BacktestDataHandler '
        '(bid, ask, bid_ask, mid; also over two sources). Oracle from the written rows: sort, open/close events, '
        'forward fill, last event <= t, NaN if none; returned numbers are decoded back to their source cell. '
        'Metamorphic: the same rows in reverse order give identical answers. Non-trivial: a dataset with a gap, a '
        'missing cell and shuffled rows; distinct = (adjust flag, gap pattern, missing-cell mask).'
        ' Widened: the same instant expressed in other time zones and with a nanosecond component; the same directory rewritten and loaded by a new source object; Adj Close blank on its own.')
RULE += ' Some tickers carry dots (S0.L next to S0, BRK.B). The two-source handler is asked bid, ask and mid. Every second adjusted dataset is also read through the data handler a BacktestTradingSession builds for itself from $QSTRADER_CSV_DATA_DIR (static universe, or dynamic universe whose members join at the start, mid-way, on the last day), for every asset that is ever a member.'
RULE += ' A quarter of the files contain untraded days whose bar repeats an earlier bar in every column; 40% of the datasets are read after another source over the same files with the other adjustment setting was built and used; get_assets_historical_closes(start, end, assets) is compared with the raw closes of exactly the bars dated in [start, end] (4 ranges per dataset); every fifth dataset is paired with a second vendor (same tickers/dates, other prices) while its own first rows are blank.'
RULE += " Column order after Date is shuffled in 30% of the datasets; 15% write dates as M/D/YYYY; 15% have whole-number closes with fractional opens; 20% use lower-case file names (tip, tips, gs); every handler query is repeated through a user-style source whose ask differs from its bid (handler ask = that source's ask)."
RULE += ' 30% of the datasets are read through a copy.copy/deepcopy of the source handed to the handler in a tuple.'
RULE += ' Adjustment ratios include 0.999992 and 1.000004; 5% of the datasets quote whole numbers of a few billion in every price column; 12% start between 1958 and 1969.'
RULE += ' 30% of the handlers first served another feed and were then re-pointed (handler.data_sources = [...]); a source built on a directory BEFORE its files were rewritten must keep answering from what it read.'
RULE += ' Round 11: a fifth of the files start with a UTF-8 byte order mark, a fifth have quoted column names; every seventh bar has Volume 0; 40% of the dataset directories have glob characters or a blank in their name.'
RULE += ' Round 12: for half of the datasets with an odd number of files, every question after the sources were built is asked with warnings escalated to errors.'
ASSUMPTIONS = [
    'unique dates per file; Close and Adj Close are missing together (otherwise "scaled by adjusted-close/close" has no single reading)',
    'values compared at 1e-12 relative (one division and one multiplication in the adjustment)',
]


def plan(tier, seed):
    return _common.split(seed, 16, 192 if tier == 'quick' else 16000, 50 if tier == 'quick' else 1200)


def run_shard(spec, acc):
    datawl.shard_c06(spec, acc)


def replay(case, acc):
    from qsmon import core
    try:
        datawl.run_case(case, acc)
    except core.Violation as v:
        acc.violation(v, case)


def finish(acc, tier):
    out = []
    need = {'before-first-bar', 'in-bar', 'after-close'}
    seen = {c.split('/')[0] for c in acc.sets.get('C06:query_classes', ())}
    if need - seen:
        out.append('query classes never visited: %s' % sorted(need - seen))
    return out
