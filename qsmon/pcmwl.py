"""
PCM scenario driver (C09): the real PortfolioConstructionModel on a real broker
seeded with arbitrary holdings; universes and alpha dictionaries that are
subsets / supersets / disjoint from the holdings; both sizers; successive
rebalances with quote moves in between. Uses the session hooks for recording.
"""
import random

import numpy as np

import pandas as pd

from qsmon import brokerwl as bw
from qsmon import core, sesswl
from qsmon.core import Violation

NAMES = ['EQ:AAA', 'EQ:BBB', 'EQ:CCC', 'EQ:DDD', 'EQ:EEE', 'EQ:FFF', 'EQ:GGG']


class StepUniverse(object):
    def __init__(self):
        self.assets = []

    def get_assets(self, dt):
        return list(self.assets)


class StepAlpha(object):
    def __init__(self):
        self.w = {}

    def __call__(self, dt):
        return dict(self.w)


def gen_case(rng):
    n = rng.randint(2, 7)
    assets = NAMES[:n]
    long_only = rng.random() < 0.5
    steps = []
    calm = rng.random() < 0.2          # a big account, cheap assets, fixed weights and price moves of 0.001%: orders of a few units
    level = {a: (rng.uniform(2.0, 10.0) if calm else 10 ** rng.uniform(0, 2.7)) for a in assets}
    calm_w = {a: round(rng.uniform(0.2, 1.0), 2) * (1 if long_only or rng.random() < 0.5 else -1) for a in assets}
    for _ in range(rng.randint(3, 8)):
        quotes = {}
        for a in assets:
            # moderate moves between rebalances: equity must stay in a range where share counts are exact in floats
            level[a] = min(max(level[a] * (rng.uniform(0.99999, 1.00001) if calm else rng.uniform(0.7, 1.4)), 0.5), 5000.0)
            bid = round(level[a], rng.choice([2, 4]))
            quotes[a] = [bid, round(bid + rng.choice([0.01, 0.02, 0.05, 0.25]), 4)]
            if calm:
                quotes[a] = [round(level[a], 6), round(level[a] + 0.0001, 6)]
        universe = [a for a in assets if rng.random() < 0.6]
        rng.shuffle(universe)
        keys_mode = rng.choice(['universe', 'subset', 'superset', 'disjoint', 'empty'])
        if keys_mode == 'universe':
            keys = list(universe)
        elif keys_mode == 'subset':
            keys = [a for a in universe if rng.random() < 0.5]
        elif keys_mode == 'superset':
            keys = list(set(universe) | {a for a in assets if rng.random() < 0.5})
        elif keys_mode == 'disjoint':
            keys = [a for a in assets if a not in universe]
        else:
            keys = []
        w = {}
        for a in keys:
            x = rng.choice([0.0, 1.0, 0.5, round(rng.uniform(0, 2), 3), 0, 1, 1, 2])      # whole-number weights arrive as ints too
            if not long_only and rng.random() < 0.5:
                x = -x
            w[a] = x
        if calm:
            universe, w, keys_mode = list(assets), dict(calm_w), 'universe'
        steps.append({'quotes': quotes, 'universe': universe, 'weights': w, 'keys_mode': keys_mode})
    seed_holdings = {a: rng.choice([1, -1]) * rng.randint(1, 500) for a in assets if rng.random() < 0.5}
    if rng.random() < 0.3:
        # several positions of exactly the same size (e.g. round lots): dropped together they give equal sell orders
        q0 = rng.choice([100, 250, rng.randint(1, 500)])
        for a in rng.sample(assets, rng.randint(2, n)):
            seed_holdings[a] = q0
    fee = ['zero'] if rng.random() < 0.5 else ['pct', rng.choice([0.001, 0.01]), rng.choice([0.0, 0.005])]
    return {'via_qts': rng.random() < 0.5, 'static_universe_object': rng.random() < 0.3, 'assets': assets, 'long_only': long_only, 'buffer': rng.choice([0.0, 0.05, 0.3]),
            'leverage': rng.choice([0.5, 1.0, 2.0]), 'fee': fee,
            'cash': float(rng.choice([1e7, 2.5e7, 1e8])) if calm else float(rng.choice([1e5, 1e6, 2.5e7])),
            'seed_holdings': {} if calm else seed_holdings, 'steps': steps, 'calm': calm,
            'other_portfolio': rng.choice([None, None, 'before', 'after', 'after']),
            'loud': rng.random() < 0.3, 'same_day': rng.random() < 0.3}


def run_case(case, acc, report_prop='C09'):
    sesswl.hook()
    from qstrader.broker.simulated_broker import SimulatedBroker
    from qstrader.exchange.simulated_exchange import SimulatedExchange
    from qstrader.broker.fee_model.zero_fee_model import ZeroFeeModel
    from qstrader.broker.fee_model.percent_fee_model import PercentFeeModel
    from qstrader.execution.order import Order
    from qstrader.portcon.pcm import PortfolioConstructionModel
    from qstrader.portcon.optimiser.fixed_weight import FixedWeightPortfolioOptimiser
    from qstrader.portcon.order_sizer.dollar_weighted import DollarWeightedCashBufferedOrderSizer
    from qstrader.portcon.order_sizer.long_short import LongShortLeveragedOrderSizer
    t = bw.ts('2021-03-01 15:00:00')
    book = bw.QuoteBook()
    book.now = t
    for a, q in case['steps'][0]['quotes'].items():
        book.set(a, *q)
    fee = case['fee']
    fm = ZeroFeeModel() if fee[0] == 'zero' else PercentFeeModel(commission_pct=fee[1], tax_pct=fee[2])
    broker = SimulatedBroker(t, SimulatedExchange(t), book, initial_funds=case['cash'], fee_model=fm)
    # the account may hold another, idle portfolio created before or after the one being rebalanced
    if case.get('other_portfolio') == 'before':
        broker.create_portfolio('A_IDLE')
    broker.create_portfolio('P')
    if case.get('other_portfolio') == 'after':
        broker.create_portfolio('Z_IDLE')
    broker.subscribe_funds_to_portfolio('P', case['cash'])
    for a, q in case['seed_holdings'].items():
        broker.submit_order('P', Order(t, a, q))
    broker.update(t)
    uni, alpha = StepUniverse(), StepAlpha()
    configured = None
    if case.get('static_universe_object'):
        # one real StaticUniverse object serves every rebalance of the case (its membership is what it was built with)
        from qstrader.asset.universe.static import StaticUniverse
        configured = list(case['steps'][0]['universe'])
        uni = StaticUniverse(list(configured))
        acc.count('C09:cases_on_one_static_universe_object')
    if case['long_only']:
        sizer = DollarWeightedCashBufferedOrderSizer(broker, 'P', book, cash_buffer_percentage=case['buffer'])
    else:
        sizer = LongShortLeveragedOrderSizer(broker, 'P', book, gross_leverage=case['leverage'])
    pcm = PortfolioConstructionModel(broker, 'P', uni, sizer, FixedWeightPortfolioOptimiser(), alpha_model=alpha)
    qts = None
    if case.get('via_qts'):
        # the whole trading system: portfolio construction and the execution handler that submits its orders
        from qstrader.system.qts import QuantTradingSystem
        kw = {'cash_buffer_percentage': case['buffer']} if case['long_only'] else {'gross_leverage': case['leverage']}
        qts = QuantTradingSystem(uni, broker, 'P', book, alpha, long_only=case['long_only'], submit_orders=True, **kw)
    tr = sesswl.Trace()
    sesswl.CUR[0] = tr
    stats = {'target_allocations': []}
    loud = core.loud(bool(case.get('loud')))
    loud.__enter__()
    try:
        for i, st in enumerate(case['steps']):
            if case.get('same_day') and i % 2 == 1 and t.hour < 19:
                t = t + pd.Timedelta(hours=2, minutes=30)          # a second rebalance on the same calendar day
            else:
                t = (t + pd.Timedelta(days=1 if t.weekday() < 4 else 3)).normalize() + pd.Timedelta(hours=15)
            book.now = t
            for a, q in st['quotes'].items():
                book.set(a, *q)
            broker.update(t)
            if configured is None:
                uni.assets = list(st['universe'])
            alpha.w = dict(st['weights'])
            if i % 3 == 2:
                # ... or as numpy integers (weights computed with numpy: ranks, signs, counts)
                alpha.w = {a_: (np.int64(x_) if isinstance(x_, int) else x_) for a_, x_ in alpha.w.items()}
            n_before = len(tr.pcm)
            try:
                if qts is not None:
                    qts(t, stats=stats)
                    orders = []
                    acc.count('C09:rebalances_through_the_trading_system')
                else:
                    orders = pcm(t, stats=stats)
            except ValueError as e:
                # only legitimate for negative equity / nothing: not generated; report
                raise Violation('C09', 'pcm-raised/ValueError', 'portfolio construction raised %r at step %d' % (e, i), {})
            except Exception as e:
                if core.from_repo(e):
                    raise Violation('C09', 'rebalance-raised/%s' % type(e).__name__, 'the rebalance at step %d (universe %s, weights %s, '
                                    'held %s) raised %r' % (i, st['universe'], st['weights'],
                                                            {a: d['quantity'] for a, d in broker.get_portfolio_as_dict('P').items()}, e), {})
                raise
            if len(tr.pcm) == n_before:
                raise Violation('C09', 'no-portfolio-construction', 'the trading system was asked to rebalance at step %d (universe %s, '
                                'held %s) and no portfolio construction took place' % (
                                    i, st['universe'], {a: d['quantity'] for a, d in broker.get_portfolio_as_dict('P').items()}), {})
            rec = tr.pcm[-1]
            if configured is not None:
                rec['universe'] = list(configured)        # judged against the universe as configured, not as the object now answers
            # working out the orders does not change what the broker reports as held (read before anything is submitted
            # or the clock moves on): the same assets and quantities as the portfolio's own report, no zero entries
            report_ = broker.get_portfolio_as_dict('P')
            rep = {a: d['quantity'] for a, d in report_.items()}
            for d_ in report_.values():
                d_['quantity'] = 10 ** 6          # the caller projects its own numbers onto ITS copy of the report
            try:
                own = {a: d['quantity'] for a, d in broker.portfolios['P'].portfolio_to_dict().items()}
            except KeyError:
                own = None
            if qts is None and (rep != own or any(q == 0 for q in rep.values()) or rep != {a: q for a, q in rec['held'].items()}):
                raise Violation(report_prop, 'holdings-report-after-rebalance', 'after portfolio construction at step %d (nothing submitted '
                                'yet) broker.get_portfolio_as_dict reports %s; the portfolio holds %s' % (i, rep, own), {})
            acc.count('%s:holdings_reports_after_portfolio_construction' % report_prop)
            sesswl.check_c09_record(rec, acc)
            acc.see('C09:alpha_key_modes', st['keys_mode'])
            if any(a in rec['held'] and a not in st['weights'] for a in rec['held']) and \
                    any(a not in rec['held'] for a in st['weights']):
                acc.count('C09:nontrivial_rebalances')
                tr.nontrivial = True
            for o in orders:
                broker.submit_order('P', o)
            broker.update(t)
            held = {a: d['quantity'] for a, d in broker.get_portfolio_as_dict('P').items()}
            want = {a: q for a, q in rec['target'].items() if q != 0}
            if held != want:
                raise Violation('C09', 'holdings-not-on-target', 'after the orders filled holdings are %s, target was %s '
                                '(step %d, held before %s, orders %s)' % (held, want, i, rec['held'], rec['orders']), {})
            for other in ('A_IDLE', 'Z_IDLE'):
                if other in broker.portfolios and broker.get_portfolio_as_dict(other):
                    raise Violation('C09', 'fills-in-another-portfolio', 'the idle portfolio %s received positions %s from the '
                                    'rebalance of P' % (other, broker.get_portfolio_as_dict(other)), {})
            for a in rec['held']:
                if a not in st['weights'] and a in held:
                    raise Violation('C09', 'dropped-asset-not-liquidated', 'held asset %s got no weight but is still held' % a, {})
            acc.count('C09:post_fill_checks')
        if case.get('loud'):
            acc.count('C09:cases_with_event_printing_on')
    finally:
        loud.__exit__(None, None, None)
        sesswl.CUR[0] = None
    return tr


# ---------------------------------------------------------------------------
# C19 at the portfolio-construction level: one real StaticUniverse object lives through several rebalances of a
# portfolio that also holds assets outside the universe; the universe-driven alpha model weights its members.
# ---------------------------------------------------------------------------

def gen_c19_case(rng):
    case = gen_case(rng)
    n = len(case['assets'])
    k = rng.randint(1, max(1, n - 1))
    case['static_universe'] = rng.sample(case['assets'], k)
    case['signal'] = rng.choice([1.0, 0.5] if case['long_only'] else [1.0, -1.0])
    case['optimiser'] = rng.choice(['fixed', 'fixed', 'equal', 'equal'])        # both shipped optimisers
    case['scale'] = rng.choice([1.0, 1.0, 0.5, 2.0])
    if not any(a not in case['static_universe'] for a in case['seed_holdings']):
        outside = [a for a in case['assets'] if a not in case['static_universe']]
        if outside:
            case['seed_holdings'][rng.choice(outside)] = rng.randint(1, 300)
    return case


def run_c19_case(case, acc):
    sesswl.hook()
    from qstrader.alpha_model.single_signal import SingleSignalAlphaModel
    from qstrader.asset.universe.static import StaticUniverse
    from qstrader.broker.simulated_broker import SimulatedBroker
    from qstrader.exchange.simulated_exchange import SimulatedExchange
    from qstrader.broker.fee_model.zero_fee_model import ZeroFeeModel
    from qstrader.execution.order import Order
    from qstrader.portcon.pcm import PortfolioConstructionModel
    from qstrader.portcon.optimiser.fixed_weight import FixedWeightPortfolioOptimiser
    from qstrader.portcon.order_sizer.dollar_weighted import DollarWeightedCashBufferedOrderSizer
    from qstrader.portcon.order_sizer.long_short import LongShortLeveragedOrderSizer
    t = bw.ts('2021-03-01 15:00:00')
    book = bw.QuoteBook()
    book.now = t
    for a, q in case['steps'][0]['quotes'].items():
        book.set(a, *q)
    broker = SimulatedBroker(t, SimulatedExchange(t), book, initial_funds=case['cash'], fee_model=ZeroFeeModel())
    broker.create_portfolio('P')
    broker.subscribe_funds_to_portfolio('P', case['cash'])
    for a, q in case['seed_holdings'].items():
        broker.submit_order('P', Order(t, a, abs(q)))
    broker.update(t)
    configured = list(case['static_universe'])
    uni = StaticUniverse(list(configured))
    alpha = SingleSignalAlphaModel(uni, signal=case['signal'])
    if case['long_only']:
        sizer = DollarWeightedCashBufferedOrderSizer(broker, 'P', book, cash_buffer_percentage=case['buffer'])
    else:
        sizer = LongShortLeveragedOrderSizer(broker, 'P', book, gross_leverage=case['leverage'])
    member_weight = case['signal']
    optimiser = FixedWeightPortfolioOptimiser()
    if case.get('optimiser') == 'equal':
        from qstrader.portcon.optimiser.equal_weight import EqualWeightPortfolioOptimiser
        optimiser = EqualWeightPortfolioOptimiser(scale=case['scale'])
        member_weight = case['scale'] / len(configured)         # the members share the scale equally; nobody else gets any
        acc.count('C19:pcm_level_cases_with_the_equal_weight_optimiser')
    pcm = PortfolioConstructionModel(broker, 'P', uni, sizer, optimiser, alpha_model=alpha)
    tr = sesswl.Trace()
    sesswl.CUR[0] = tr
    stats = {'target_allocations': []}
    sold_out = set()
    try:
        for i, st in enumerate(case['steps']):
            t = t + pd.Timedelta(days=1 if t.weekday() < 4 else 3)
            book.now = t
            for a, q in st['quotes'].items():
                book.set(a, *q)
            broker.update(t)
            orders = pcm(t, stats=stats)
            rec = tr.pcm[-1]
            got = list(uni.get_assets(t))
            if got != configured:
                raise Violation('C19', 'static-universe-changed', 'after %d rebalance(s) the static universe yields %s, '
                                'configured %s (held before this rebalance: %s)' % (i + 1, got, configured, sorted(rec['held'])), {})
            row = rec['row'] or {}
            for a in set(row) - {'Date'}:
                if a not in configured and a not in rec['held']:
                    raise Violation('C19', 'weight-outside-universe', 'asset %s is neither a universe member nor held but '
                                    'has a target weight at rebalance %d' % (a, i + 1), {})
                if a not in configured and row[a] != 0.0:
                    raise Violation('C19', 'weight-outside-universe', 'held asset %s outside the universe got weight %r at '
                                    'rebalance %d' % (a, row[a], i + 1), {})
                if a in configured and abs(row[a] - member_weight) > 1e-12 * abs(member_weight):
                    raise Violation('C19', 'member-weight', 'member %s has weight %r, the %s optimiser over the %d members gives %r'
                                    % (a, row[a], case.get('optimiser', 'fixed'), len(configured), member_weight), {})
            for a, q in rec['orders']:
                if a not in configured and a not in rec['held']:
                    raise Violation('C19', 'order-outside-universe', 'order for %s which is neither member nor held' % a, {})
                if a in sold_out:
                    raise Violation('C19', 'order-outside-universe', 'asset %s left the portfolio and is outside the '
                                    'universe but is ordered again at rebalance %d' % (a, i + 1), {})
            for o in orders:
                broker.submit_order('P', o)
            broker.update(t)
            held = set(broker.get_portfolio_as_dict('P'))
            for a in held:
                if a not in configured:
                    raise Violation('C19', 'position-outside-universe', 'asset %s is outside the universe but still held '
                                    'after rebalance %d' % (a, i + 1), {})
            sold_out |= {a for a in rec['held'] if a not in configured}
            acc.count('C19:pcm_level_rebalances')
    finally:
        sesswl.CUR[0] = None
