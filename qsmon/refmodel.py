"""
Independent reference implementation of the documented trading rules for a
fixed-weight backtest (C08). Plain Python: datetime calendar (qsmon.cal),
point-in-time quotes from the written CSV rows (qsmon.market.World), exact
rationals. It imports neither qstrader nor pandas.

The reference is run in lock-step with what the real session did: integer
decisions that are ambiguous in floating point (within 1e-9 of a rounding
boundary) adopt the implementation's choice and are counted; every other
difference is a violation.
"""
import datetime as dt
from fractions import Fraction

from qsmon import cal, core
from qsmon.core import F, Violation


def parse(s):
    t = dt.datetime.fromisoformat(s)
    if t.tzinfo is None:
        t = t.replace(tzinfo=cal.UTC)
    return t


def schedule(cfg):
    start, end = parse(cfg['start']), parse(cfg['end'])
    kind = cfg['rebalance']
    if kind == 'daily':
        return cal.daily(start, end)
    if kind == 'weekly':
        return cal.weekly(start, end, cfg['weekday'])
    if kind == 'end_of_month':
        return cal.end_of_month(start, end)
    if kind == 'buy_and_hold':
        return cal.buy_and_hold(start)
    raise ValueError(kind)


def rebalance_instants(cfg):
    """Scheduled instants that are clock events and not before burn-in."""
    start, end = parse(cfg['start']), parse(cfg['end'])
    clock = {t for t, _ in cal.clock(start, end, False, False)}
    burn = parse(cfg['burn_in']) if cfg.get('burn_in') else None
    return [t for t in schedule(cfg) if t in clock and (burn is None or t >= burn)]


class Ref(object):

    def __init__(self, cfg, world, acc=None):
        self.cfg = cfg
        self.world = world
        self.acc = acc
        self.cash = F(cfg['cash'])
        self.held = {}
        self.pending = []
        self.fills = []
        self.equity = []
        self.flow = abs(F(cfg['cash']))
        fee = cfg['fee']
        self.f = Fraction(0) if fee[0] == 'zero' else F(fee[1]) + F(fee[2])
        self.ambiguous = 0
        self.rebalances_traded = 0
        self.sells = 0

    def V(self, key, msg, **w):
        raise Violation('C08', key, msg, w)

    def quote(self, asset, t):
        q = self.world.quote(asset, t)
        if q is None:
            self.V('reference-no-quote', 'the reference has no quote for %s at %s (generator bug)' % (asset, t))
        return q

    def equity_at(self, t):
        return self.cash + sum(q * self.quote(a, t) for a, q in self.held.items() if q)

    # -- sizing rules ---------------------------------------------------------

    def targets(self, t, weights):
        E = self.equity_at(t)
        out = {}
        if self.cfg['long_only']:
            total = sum(F(x) for x in weights.values())
            zero = abs(total) <= Fraction(1, 10 ** 8)
            budget = E * (1 - F(self.cfg['buffer']))
            for a in sorted(weights):
                share = F(weights[a]) if zero else F(weights[a]) / total
                alloc = budget * share
                out[a] = core.floor_candidates(alloc * (1 - self.f) / self.quote(a, t))
        else:
            gross = sum(abs(F(x)) for x in weights.values())
            zero = abs(gross) <= Fraction(1, 10 ** 8)
            for a in sorted(weights):
                sw = F(weights[a]) if zero else F(weights[a]) * F(self.cfg['leverage']) / gross
                alloc = E * sw
                after = alloc - self.f * abs(alloc)
                c = set()
                for d in core.trunc_candidates(after):
                    c |= core.trunc_candidates(Fraction(d) / self.quote(a, t))
                out[a] = c
        return out

    # -- fills ----------------------------------------------------------------

    def fill(self, t, asset, qty):
        price = self.quote(asset, t)
        exact = price * F(qty)
        cons = core.round_candidates(exact)
        if len(cons) > 1:
            self.ambiguous += 1
        comm = {n: self.f * abs(n) for n in cons}
        self.fills.append({'t': t, 'asset': asset, 'qty': qty, 'price': price, 'commission': comm})
        return price, comm

    def settle(self, asset, qty, price, commission):
        qty = F(qty)
        if qty.denominator == 1:
            qty = int(qty)
        self.cash -= price * qty + commission
        self.flow += abs(price * qty) + commission
        self.held[asset] = self.held.get(asset, 0) + qty
        if qty < 0:
            self.sells += 1

    # -- main loop ------------------------------------------------------------

    def run(self, actual_fills, actual_orders):
        """
        actual_fills : list of dict(dt, asset, qty, price, commission) in delivery order
        actual_orders: {instant: [(asset, qty), ...]} as returned by portfolio construction (used only to adopt
                       the implementation's choice where a rounding decision is ambiguous)
        """
        cfg = self.cfg
        start, end = parse(cfg['start']), parse(cfg['end'])
        burn = parse(cfg['burn_in']) if cfg.get('burn_in') else None
        instants = set(rebalance_instants(cfg))
        universe = list(cfg['universe']['assets'])
        weights_cfg = cfg['alpha']['weights']
        ai = 0

        def take(t, asset, qty):
            """Match the next actual fill against the expected one, settle with the actual float values."""
            nonlocal ai
            price, comm = self.fill(t, asset, qty)
            if ai >= len(actual_fills):
                self.V('missing-fill', 'expected fill of %s x %s at %s (price %r) never happened'
                       % (qty, asset, t, float(price)), expected_fill_index=len(self.fills) - 1)
            a = actual_fills[ai]
            ai += 1
            if a['dt'] != t:
                self.V('fill-time', 'fill #%d of %s x %s happened at %s, the rules say %s'
                       % (ai, a['qty'], a['asset'], a['dt'], t))
            if a['asset'] != asset or a['qty'] != qty:
                self.V('fill-quantity' if a['asset'] == asset else 'fill-order',
                       'fill #%d at %s is %s x %s, the rules say %s x %s' % (ai, t, a['qty'], a['asset'], qty, asset))
            if not core.close(a['price'], price, abs(price), rel=1e-12):
                src = self.world.source_of(asset, a['price'])
                self.V('fill-price', 'fill #%d of %s at %s priced %r (= %s), the quote at that time is %r'
                       % (ai, asset, t, a['price'], src, float(price)))
            ok = [n for n, c in comm.items() if core.close(a['commission'], c, abs(c), rel=1e-12)]
            if not ok:
                self.V('commission', 'fill #%d of %s x %s @ %r charged %r, fee rules give %s'
                       % (ai, qty, asset, a['price'], a['commission'], [float(c) for c in comm.values()]))
            self.settle(asset, qty, F(a['price']), F(a['commission']))

        for t, typ in cal.clock(start, end, False, False):
            if typ == 'market_open' and self.pending:
                batch = [o for o in self.pending if o[1] < 0] + [o for o in self.pending if o[1] > 0]
                self.pending = []
                for asset, qty in batch:
                    take(t, asset, qty)
            if t in instants:
                held_assets = [a for a, q in self.held.items() if q]
                full = sorted(set(held_assets) | set(universe))
                weights = {a: 0.0 for a in full}
                weights.update(weights_cfg)
                cands = self.targets(t, weights)
                act = None
                if actual_orders is not None:
                    act = {a: (int(q) if float(q).is_integer() else q) for a, q in actual_orders.get(t, [])}
                orders = []
                for a in sorted(weights):
                    have = self.held.get(a, 0)
                    c = cands[a]
                    if len(c) > 1:
                        self.ambiguous += 1
                        pick = None
                        if act is not None:
                            got = act.get(a, 0) + have
                            if got in c:
                                pick = got
                        tq = pick if pick is not None else min(c, key=abs)
                    else:
                        tq = next(iter(c))
                    if tq - have != 0:
                        orders.append((a, tq - have))
                if act is not None and (not (self.equity_at(t) > 0) or abs(self.equity_at(t)) > 2 ** 50
                                        or any(abs(q_) > 2 ** 50 for _, q_ in list(act.items()) + orders)):
                    # the sizing rules are stated for positive equity (C10 / C11): once a book has lost more than it had, the
                    # orders the library generated are taken as given (fills, prices, cash and equity stay judged); likewise
                    # where equity or quantities exceed 2**50 (floats cannot hit a whole number to within one unit up there)
                    orders = sorted((a, q) for a, q in act.items())
                    self.unjudged_rebalances = getattr(self, 'unjudged_rebalances', 0) + 1
                elif act is not None:
                    got = sorted((a, q) for a, q in act.items())
                    if got != sorted(orders):
                        self.V('rebalance-orders', 'orders at %s are %s, the documented sizing rules give %s '
                               '(equity %r)' % (t, got, sorted(orders), float(self.equity_at(t))))
                if orders:
                    self.rebalances_traded += 1
                if cal.exchange_open(t):
                    for asset, qty in orders:
                        take(t, asset, qty)
                else:
                    self.pending = orders
            if typ == 'market_close' and (burn is None or t >= burn):
                self.equity.append((t.date(), self.equity_at(t)))
        if ai != len(actual_fills):
            a = actual_fills[ai]
            self.V('extra-fill', 'fill of %s x %s at %s is not explained by the trading rules' % (a['qty'], a['asset'], a['dt']))
        return self
