"""W-CAL: (start, end, flags) ranges for the clock (C12) and the rebalance schedules (C13)."""
import datetime as dt
import random
import time

import pandas as pd

from qsmon import cal, core
from qsmon.core import Violation

WIN_START = dt.date(2019, 12, 1)
WIN_END = dt.date(2024, 3, 31)
START_TIMES = [dt.time(0, 0), dt.time(14, 30)]
QUICK_LENGTHS = [0, 1, 2, 3, 4, 5, 6, 7, 8, 10, 13, 20, 27, 31, 45]


def pts(d):
    return pd.Timestamp(d)


def window_days():
    return [WIN_START + dt.timedelta(days=i) for i in range((WIN_END - WIN_START).days + 1)]


def to_py(t):
    t = pd.Timestamp(t)
    if t.tzinfo is None:
        raise Violation('C12', 'naive-timestamp', 'timestamp %r carries no timezone' % (t,))
    return t.tz_convert('UTC').to_pydatetime()


# ---------------------------------------------------------------------------

def check_clock(start, end, pre, post, acc, reuse=False):
    from qstrader.simulation.daily_bday import DailyBusinessDaySimulationEngine
    case = {'start': str(start), 'end': str(end), 'pre_market': pre, 'post_market': post}
    try:
        eng = DailyBusinessDaySimulationEngine(pts(start), pts(end), pre_market=pre, post_market=post)
        got = [(to_py(e.ts), e.event_type) for e in eng]
    except Violation:
        raise
    except Exception as e:
        raise Violation('C12', 'valid-range-raised/%s' % type(e).__name__,
                        'the clock for the valid range %s raised %r' % (case, e), case)
    want = cal.clock(start, end, pre, post)
    acc.count('C12:events_observed', len(got))
    if reuse:
        # the flags are public attributes: switched on an engine that has already been run, the next pass follows them
        for p2, q2 in ((not pre, post), (pre, not post)):
            eng.pre_market, eng.post_market = p2, q2
            again = [(to_py(e.ts), e.event_type) for e in eng]
            if again != cal.clock(start, end, p2, q2):
                raise Violation('C12', 'flags-changed-after-first-pass', 'an engine built with pre/post = %s/%s and run once, then set to '
                                '%s/%s, emits %d events; the clock for those flags has %d' % (pre, post, p2, q2, len(again),
                                                                                             len(cal.clock(start, end, p2, q2))), case)
        eng.pre_market, eng.post_market = pre, post
        acc.count('C12:passes_after_the_flags_were_switched')
        import copy
        for how in (copy.deepcopy, copy.copy):
            twin = [(to_py(e.ts), e.event_type) for e in how(DailyBusinessDaySimulationEngine(pts(start), pts(end), pre_market=pre,
                                                                                            post_market=post))]
            if twin != got:
                raise Violation('C12', 'copied-engine-differs', 'a %s of the engine for %s emits %d events, the engine itself %d (first '
                                'difference %s)' % (how.__name__, case, len(twin), len(got),
                                                    next(((a_, b_) for a_, b_ in zip(twin, got) if a_ != b_), None)), case)
        acc.count('C12:copied_engines_compared')
    for i in range(1, len(got)):
        if not got[i - 1][0] < got[i][0]:
            raise Violation('C12', 'not-increasing', 'events %s and %s are not in strictly increasing order'
                            % (got[i - 1], got[i]), case)
    if got != want:
        gd = sorted({g[0].date() for g in got})
        wd = sorted({w[0].date() for w in want})
        if gd != wd:
            extra = [d for d in gd if d not in wd]
            missing = [d for d in wd if d not in gd]
            key = 'weekend-date' if any(d.weekday() > 4 for d in extra) else ('missing-date' if missing else 'extra-date')
            raise Violation('C12', key, 'clock dates differ for %s: extra %s missing %s'
                            % (case, [str(d) for d in extra[:5]], [str(d) for d in missing[:5]]), case)
        for g, w in zip(got, want):
            if g != w:
                raise Violation('C12', 'wrong-event', 'event %s (%s), expected %s (%s) for %s'
                                % (g[0], g[1], w[0], w[1], case), case)
        raise Violation('C12', 'event-count', 'clock has %d events, expected %d for %s' % (len(got), len(want), case), case)
    acc.count('C12:ranges_checked')
    if reuse and got:
        # iteration is the observation point: a second pass over the same engine, and a pass after an abandoned
        # one (peek at the first event, zip against a shorter list), must give the same events
        again = [(to_py(e.ts), e.event_type) for e in eng]
        if again != got:
            raise Violation('C12', 're-iteration', 'a second pass over the same engine yields %d events, the first %d for %s'
                            % (len(again), len(got), case), case)
        eng2 = DailyBusinessDaySimulationEngine(pts(start), pts(end), pre_market=pre, post_market=post)
        it = iter(eng2)
        next(it)
        if len(got) > 3:
            next(it)
        del it
        after = [(to_py(e.ts), e.event_type) for e in eng2]
        if after != want:
            raise Violation('C12', 're-iteration/after-abandoned-pass', 'after an abandoned partial pass a full pass over the same '
                            'engine yields %d events, expected %d for %s' % (len(after), len(want), case), case)
        # events kept by the consumer (list(engine)) must still say what they said when they were emitted
        kept = list(DailyBusinessDaySimulationEngine(pts(start), pts(end), pre_market=pre, post_market=post))
        kept_view = [(to_py(e.ts), e.event_type) for e in kept]
        if kept_view != want:
            raise Violation('C12', 'kept-events-changed', 'list(engine) holds %d events whose timestamps read %s ...; emitted were %s ...'
                            ' for %s' % (len(kept), [str(x[0]) for x in kept_view[:3]], [str(x[0]) for x in want[:3]], case), case)
        # two iterators over one engine at the same time (look-ahead pairing)
        import itertools
        eng3 = DailyBusinessDaySimulationEngine(pts(start), pts(end), pre_market=pre, post_market=post)
        pairs = [((to_py(a.ts), a.event_type), (to_py(b.ts), b.event_type))
                 for a, b in zip(eng3, itertools.islice(eng3, 1, None))]
        if pairs != list(zip(want, want[1:])):
            raise Violation('C12', 're-iteration/simultaneous-iterators', 'zip(engine, islice(engine, 1, None)) gives %d pairs, '
                            'expected %d consecutive pairs for %s' % (len(pairs), max(0, len(want) - 1), case), case)
        acc.count('C12:reiteration_checks')
    return got


def check_reject(start, end, acc):
    from qstrader.simulation.daily_bday import DailyBusinessDaySimulationEngine
    try:
        DailyBusinessDaySimulationEngine(pts(start), pts(end))
    except ValueError:
        acc.count('C12:rejections_checked')
        return
    except Exception as e:
        raise Violation('C12', 'reject-wrong-type/%s' % type(e).__name__, 'end < start raised %r' % (e,),
                        {'start': str(start), 'end': str(end)})
    raise Violation('C12', 'end-before-start-accepted', 'end %s < start %s was accepted' % (end, start),
                    {'start': str(start), 'end': str(end)})


def check_session_clock(start, end, acc, frac):
    """The clock a trading session (with a burn-in inside the range) runs on is the clock of its (start, end)."""
    import random as _r
    case = {'start': str(start), 'end': str(end), 'pre_market': False, 'post_market': False, 'session': True, 'frac': frac}

    class _R(object):
        def choice(self, xs):
            return frac
    try:
        sess = build_session_with_burn_in(start, end, 'daily', None, _R())
        got = [(to_py(e.ts), e.event_type) for e in sess.sim_engine]
    except Exception as e:
        if core.from_repo(e):
            raise Violation('C12', 'session-clock-raised/%s' % type(e).__name__, 'a session over %s .. %s raised %r' % (start, end, e), case)
        raise
    want = cal.clock(start, end, False, False)
    acc.count('C12:session_clocks_observed')
    if got != want:
        raise Violation('C12', 'session-clock', 'a session over %s .. %s with a burn-in at %s of the range runs on %d events '
                        '(first %s), the clock of the range has %d (first %s)' % (start, end, frac, len(got), got[:1], len(want), want[:1]), case)


def run_clock_case(case, acc):
    s = dt.datetime.fromisoformat(case['start'])
    e = dt.datetime.fromisoformat(case['end'])
    if case.get('session'):
        check_session_clock(s, e, acc, case['frac'])
    elif case.get('reject'):
        check_reject(s, e, acc)
    else:
        check_clock(s, e, case['pre_market'], case['post_market'], acc, reuse=True)


def clock_signature(start, end, pre, post):
    bd = cal.business_dates(start, end)
    n = (end.date() - start.date()).days + 1
    return ('clock', start.weekday(), n, len(bd), pre, post, start.time().isoformat(),
            start.month, start.day >= 25)


def shard_c12(spec, acc):
    core.boot()
    if int(spec.get('shard', 0)) % 2 == 1:
        # the host program has logging switched on down to DEBUG and event printing at its default (every other shard)
        core.loud(True).__enter__()
        acc.count('C12:shards_with_debug_logging_on')
    t_end = time.time() + spec['budget_s']
    days = window_days()
    mine = days[spec['lo']:spec['hi']:spec.get('stride', 1)]
    lengths = spec['lengths']
    for d in mine:
        if time.time() > t_end:
            acc.count('stopped_on_time_budget')
            break
        for st in START_TIMES:
            start = cal.at(d, st)
            for n in lengths:
                end = cal.at(d + dt.timedelta(days=n), cal.POST)
                for pre in (False, True):
                    for post in (False, True):
                        try:
                            check_clock(start, end, pre, post, acc, reuse=(n % 9 == 4))
                        except Violation as v:
                            acc.violation(v, {'kind': 'clock', **v.witness})
                        acc.evaluations += 1
                bd = cal.business_dates(start, end)
                if bd and len(bd) < n + 1:
                    acc.nontriv('C12', str(start), n)
        acc.count('window_start_dates_completed')
    # random long ranges + rejection
    rng = random.Random(spec['rng'])
    for i in range(spec['random']):
        if time.time() > t_end:
            acc.count('stopped_on_time_budget')
            break
        start, end = random_range(rng)
        pre, post = rng.random() < 0.5, rng.random() < 0.5
        try:
            check_clock(start, end, pre, post, acc, reuse=True)
            if end > start:
                check_reject(end, start, acc)
            if i % 3 == 0 and end - start > dt.timedelta(days=3):
                check_session_clock(start, end, acc, rng.choice([0.3, 0.5, 0.8]))
        except Violation as v:
            acc.violation(v, {'kind': 'clock', **v.witness})
        acc.evaluations += 1
        acc.nontriv('C12', str(start), str(end), pre, post)
        if i < 2:
            acc.sample({'start': str(start), 'end': str(end), 'pre_market': pre, 'post_market': post,
                        'events': len(cal.clock(start, end, pre, post))})
        acc.count('random_ranges')


def random_range(rng, max_days=1100):
    d = dt.date(1990, 1, 1) + dt.timedelta(days=rng.randint(0, 25500))
    if rng.random() < 0.2:
        d = dt.date(1950, 1, 1) + dt.timedelta(days=rng.randint(0, 7300))        # long histories: before the Unix epoch
    n = rng.choice([0, 0, 1, 2, 5, 9, 30, 90, 365, rng.randint(0, max_days)])
    t1 = dt.time(rng.randint(0, 23), rng.choice([0, 15, 30, 59]), rng.choice([0, 0, 59, 15]),
                 rng.choice([0, 0, 0, 250000, 1, 999999]))
    if rng.random() < 0.5:
        t1 = rng.choice([dt.time(0, 0), dt.time(14, 30), dt.time(9, 0), dt.time(21, 0)])
    # end time-of-day not before the start's (the quantifier)
    t2 = rng.choice([dt.time(23, 59), t1, dt.time(23, 59, 59)])
    if t2 < t1:
        t2 = t1
    if n == 0 and rng.random() < 0.5:
        t2 = t1                         # start and end are the same instant (start <= end still holds)
    return cal.at(d, t1), cal.at(d + dt.timedelta(days=n), t2)


# ---------------------------------------------------------------------------
# C13
# ---------------------------------------------------------------------------

def _sched(kind, start, end, weekday=None, pre=False):
    from qstrader.system.rebalance.weekly import WeeklyRebalance
    from qstrader.system.rebalance.daily import DailyRebalance
    from qstrader.system.rebalance.end_of_month import EndOfMonthRebalance
    from qstrader.system.rebalance.buy_and_hold import BuyAndHoldRebalance
    if kind == 'weekly':
        return WeeklyRebalance(pts(start), pts(end), weekday, pre_market=pre).rebalances
    if kind == 'daily':
        return DailyRebalance(pts(start), pts(end), pre_market=pre).rebalances
    if kind == 'end_of_month':
        return EndOfMonthRebalance(pts(start), pts(end), pre_market=pre).rebalances
    return BuyAndHoldRebalance(pts(start)).rebalances


def check_schedule(kind, start, end, weekday, pre, clock_set, acc):
    case = {'kind': kind, 'start': str(start), 'end': str(end), 'weekday': weekday, 'pre_market': pre}
    try:
        got_raw = _sched(kind, start, end, weekday, pre)
    except Exception as e:
        raise Violation('C13', 'valid-range-raised/%s/%s' % (kind, type(e).__name__),
                        'the %s schedule for the valid range %s raised %r' % (kind, case, e), case)
    try:
        got = [to_py(t) for t in got_raw]
    except Violation:
        raise Violation('C13', 'naive-timestamp/%s' % kind, 'schedule %s has naive timestamps' % kind, case)
    if kind == 'weekly':
        want = cal.weekly(start, end, weekday, pre)
    elif kind == 'daily':
        want = cal.daily(start, end, pre)
    elif kind == 'end_of_month':
        want = cal.end_of_month(start, end, pre)
    else:
        want = cal.buy_and_hold(start)
    acc.count('C13:instants_observed', len(got))
    for i in range(1, len(got)):
        if not got[i - 1] < got[i]:
            raise Violation('C13', 'not-increasing/%s' % kind, 'instants %s, %s not strictly increasing' % (got[i - 1], got[i]), case)
    if got != want:
        gd, wd = [g.date() for g in got], [w.date() for w in want]
        if gd != wd:
            extra = [str(d) for d in gd if d not in wd]
            missing = [str(d) for d in wd if d not in gd]
            raise Violation('C13', 'dates/%s' % kind, '%s schedule for %s: extra dates %s, missing dates %s'
                            % (kind, case, extra[:5], missing[:5]), case)
        raise Violation('C13', 'stamp/%s' % kind, '%s schedule stamped %s, expected %s for %s'
                        % (kind, [str(g) for g in got[:3]], [str(w) for w in want[:3]], case), case)
    if kind != 'buy_and_hold' and clock_set is not None:
        for g in got:
            if g not in clock_set:
                raise Violation('C13', 'no-clock-event/%s' % kind,
                                '%s instant %s is not an event of the simulation clock for the same range' % (kind, g), case)
        acc.count('C13:clock_membership_checks', len(got))
    acc.count('C13:schedules_checked')
    acc.count('C13:%s' % kind)
    return got


def check_bad_weekday(name, start, end, acc):
    from qstrader.system.rebalance.weekly import WeeklyRebalance
    case = {'kind': 'bad-weekday', 'weekday': name, 'start': str(start), 'end': str(end)}
    try:
        WeeklyRebalance(pts(start), pts(end), name)
    except ValueError:
        acc.count('C13:rejections_checked')
        return
    except Exception as e:
        raise Violation('C13', 'reject-wrong-type/%s' % type(e).__name__, 'weekday %r raised %r' % (name, e), case)
    raise Violation('C13', 'bad-weekday-accepted', 'weekday %r was accepted' % (name,), case)


def clock_instants(start, end):
    from qstrader.simulation.daily_bday import DailyBusinessDaySimulationEngine
    try:
        eng = DailyBusinessDaySimulationEngine(pts(start), pts(end), pre_market=False, post_market=False)
        if (start.toordinal() + start.hour) % 4 == 0:
            next(iter(eng), None)                  # sometimes the clock object was looked at before it is run
        return {to_py(e.ts) for e in eng}
    except Exception as e:
        raise Violation('C13', 'clock-raised/%s' % type(e).__name__, 'the simulation clock for %s .. %s raised %r'
                        % (start, end, e), {'kind': 'daily', 'start': str(start), 'end': str(end)})


def all_schedules(start, end, acc, rng=None, full=True):
    cs = clock_instants(start, end)
    acc.count('C13:clock_runs')
    n = 0
    for pre in (False, True):
        wds = cal.WEEKDAYS if full else [rng.choice(cal.WEEKDAYS)]
        for wd in wds:
            name = wd if (hash((start, wd)) & 1) else wd.lower()
            check_schedule('weekly', start, end, name, pre, cs, acc)
            n += 1
        check_schedule('daily', start, end, None, pre, cs, acc)
        check_schedule('end_of_month', start, end, None, pre, cs, acc)
        n += 2
    check_schedule('buy_and_hold', start, end, None, False, None, acc)
    return n + 1


class _NoData(object):
    """Stand-in data handler: constructing a session never reads prices."""


def build_session_with_burn_in(start, end, kind, weekday, rng):
    """A BacktestTradingSession over the same range, with a burn-in inside it (construction only, never run)."""
    from qstrader.trading.backtest import BacktestTradingSession
    from qstrader.asset.universe.static import StaticUniverse
    from qstrader.alpha_model.fixed_signals import FixedSignalsAlphaModel
    import pytz
    span = end - start
    burn = start + span * rng.choice([0.3, 0.5, 0.8])
    kw = {'rebalance_weekday': weekday} if kind == 'weekly' else {}
    # the same UTC instants, with the zone spelled in the three usual ways (pytz.UTC, datetime.timezone.utc, 'UTC')
    s_, e_, b_ = pts(start), pts(end), pts(burn)
    k = (start.toordinal() + end.toordinal()) % 3
    if k == 0:
        s_ = s_.tz_convert(pytz.UTC)
    elif k == 1:
        e_ = e_.tz_convert(pytz.UTC)
        b_ = b_.tz_convert('UTC')
    sess = BacktestTradingSession(s_, e_, StaticUniverse(['EQ:AAA']), FixedSignalsAlphaModel({'EQ:AAA': 1.0}),
                                  rebalance=kind, long_only=True, cash_buffer_percentage=0.05, burn_in_dt=b_,
                                  data_handler=_NoData(), **kw)
    sess._qsmon_burn = burn
    return sess


def schedules_survive_sessions(start, end, acc, rng):
    """
    Schedules are values of (start, end, parameters) only: building trading sessions (with a burn-in) over the same
    range in the same process must not change what a schedule built afterwards contains.
    """
    cs = clock_instants(start, end)
    for kind, wd in (('weekly', rng.choice(cal.WEEKDAYS)), ('daily', None), ('end_of_month', None)):
        check_schedule(kind, start, end, wd, False, cs, acc)
        try:
            sess = build_session_with_burn_in(start, end, kind, wd, rng)
        except Exception as e:
            if core.from_repo(e):
                raise Violation('C13', 'session-construction-raised/%s' % type(e).__name__,
                                'building a session over %s .. %s (%s) raised %r' % (start, end, kind, e),
                                {'kind': kind, 'start': str(start), 'end': str(end), 'weekday': wd, 'pre_market': False})
            raise
        try:
            check_schedule(kind, start, end, wd, False, cs, acc)
        except Violation as v:
            raise Violation('C13', 'after-session/' + v.key, 'after a session with a burn-in over the same range was built in this '
                            'process: ' + v.msg, dict(v.witness, after_session=True))
        acc.count('C13:after_session_checks')
        # the session itself holds this schedule and this clock: every instant of the one is an event of the other
        wit = {'kind': kind, 'start': str(start), 'end': str(end), 'weekday': wd, 'pre_market': False, 'after_session': True}
        want = {'weekly': lambda: cal.weekly(start, end, wd), 'daily': lambda: cal.daily(start, end),
                'end_of_month': lambda: cal.end_of_month(start, end)}[kind]()
        got = [to_py(t) for t in sess.rebalance_schedule]
        # (a session may legitimately keep only the instants it will act on, i.e. those not before its burn-in)
        if got != want and got != [t for t in want if t >= sess._qsmon_burn]:
            raise Violation('C13', 'session-schedule', 'the %s session over %s .. %s (weekday %s) holds the schedule %s..., the '
                            'dates of the range give %s...' % (kind, start, end, wd, [str(t) for t in got[:3]],
                                                               [str(t) for t in want[:3]]), wit)
        next(iter(sess.sim_engine), None)          # a look at the first event before the pass proper
        clock = [to_py(e.ts) for e in sess.sim_engine]
        if set(clock) != cs or clock != sorted(clock):
            raise Violation('C13', 'session-clock', 'the session over %s .. %s (burn-in inside the range) runs on a clock of %d '
                            'events (%s ...), the simulation clock for the range has %d' % (start, end, len(clock),
                                                                                         [str(t) for t in clock[:2]], len(cs)), wit)
        missing = [t for t in want if t not in set(clock)]
        if missing:
            raise Violation('C13', 'session-skips-rebalance', 'scheduled instants %s are not events of the session clock'
                            % [str(t) for t in missing[:3]], wit)
        acc.count('C13:session_schedule_and_clock_checks')
    # an unknown weekday given to the session is rejected like one given to the schedule class
    for bad in ('', 'SAT', 'SUN', 'WEEKLY'):
        try:
            build_session_with_burn_in(start, end, 'weekly', bad, rng)
        except ValueError:
            acc.count('C13:session_rejections_checked')
            continue
        except Exception as e:
            if core.from_repo(e):
                raise Violation('C13', 'session-reject-wrong-type/%s' % type(e).__name__, 'a weekly session with weekday %r raised %r'
                                % (bad, e), {'kind': 'weekly', 'start': str(start), 'end': str(end), 'weekday': 'MON',
                                             'pre_market': False, 'after_session': True})
            raise
        raise Violation('C13', 'session-bad-weekday-accepted', 'a weekly session with rebalance_weekday=%r was built (schedule %s...)'
                        % (bad, [str(t) for t in list(getattr(build_session_with_burn_in(start, end, 'weekly', bad, rng),
                                                                 'rebalance_schedule', []))[:2]]),
                        {'kind': 'weekly', 'start': str(start), 'end': str(end), 'weekday': 'MON', 'pre_market': False,
                         'after_session': True})


def run_sched_case(case, acc):
    s = dt.datetime.fromisoformat(case['start'])
    e = dt.datetime.fromisoformat(case['end'])
    if case.get('after_session'):
        import random as _r
        schedules_survive_sessions(s, e, acc, _r.Random(0))
    elif case['kind'] == 'bad-weekday':
        check_bad_weekday(case['weekday'], s, e, acc)
    else:
        cs = clock_instants(s, e) if case['kind'] != 'buy_and_hold' else None
        check_schedule(case['kind'], s, e, case.get('weekday'), case.get('pre_market', False), cs, acc)


def _weekly_with_unknown_day():
    from qstrader.system.rebalance.weekly import WeeklyRebalance
    return WeeklyRebalance(pts(cal.at(dt.date(2020, 1, 6), dt.time(0, 0))), pts(cal.at(dt.date(2020, 2, 6), cal.POST)), 'FUNDAY').rebalances


def shard_c13(spec, acc):
    core.boot()
    t_end = time.time() + spec['budget_s']
    days = window_days()
    mine = days[spec['lo']:spec['hi']:spec.get('stride', 1)]
    rng = random.Random(spec['rng'])
    tods = [dt.time(0, 0), dt.time(14, 30)]
    # somebody else in the process has already run clocks with the other flag combinations
    from qstrader.simulation.daily_bday import DailyBusinessDaySimulationEngine as _Eng
    for p_, q_ in ((True, False), (False, True), (True, True)):
        list(_Eng(pts(cal.at(dt.date(2020, 1, 6), dt.time(0, 0))), pts(cal.at(dt.date(2020, 1, 8), cal.POST)), pre_market=p_, post_market=q_))
    # ... and has had requests refused: a reversed range (clock), an unknown weekday (weekly schedule)
    for bad_ in (lambda: _Eng(pts(cal.at(dt.date(2020, 1, 8), dt.time(0, 0))), pts(cal.at(dt.date(2020, 1, 6), cal.POST))),
                 lambda: _weekly_with_unknown_day()):
        try:
            bad_()
        except Exception:
            acc.count('C13:refused_requests_before_the_valid_ones')
    # "no scheduled rebalance is silently skipped", observed on running sessions: any time of day for the start
    from qsmon import sesswl
    for j in range(spec.get('sessions', 3)):
        cfg = sesswl.gen_cfg(rng, alpha_kinds=('fixed', 'single'), universe_kinds=('static',), max_days=30, burn=False,
                             rebalances=('daily', 'weekly', 'end_of_month'), two_sources=0)
        cfg['start'] = '%s %s+00:00' % (cfg['start'][:10], rng.choice(['22:15:00', '21:00:00', '21:00:01', '23:30:00', '16:00:00',
                                                                      '14:30:01', '00:00:00', '09:00:00']))
        if rng.random() < 0.4:
            cfg['end'] = cfg['end'][:10] + cfg['start'][10:]        # the end carries the start's time of day (e.g. 00:00 .. 00:00)
        sesswl.run_case(cfg, acc, 'C13')
        acc.evaluations += 1
        acc.see('C13:session_start_times', cfg['start'][11:19])
    if int(spec.get('shard', 0)) % 2 == 1:
        # from here on the host program has logging switched on down to DEBUG (every other shard)
        core.loud(True).__enter__()
        acc.count('C13:shards_with_debug_logging_on')
    if spec.get('stride', 1) > 1:
        # the strided (quick) window skips most calendar edges: every start date of this shard's slice within three
        # days of a month boundary is added with a few lengths (weekend month ends, year ends, the leap day)
        seen = set(mine)
        for d in days[spec['lo']:spec['hi']]:
            if d in seen or not (d.day <= 3 or (d + dt.timedelta(days=3)).month != d.month):
                continue
            for st in tods:
                start = cal.at(d, st)
                for n in (0, 2, 9, 33):
                    end = cal.at(d + dt.timedelta(days=n), cal.POST)
                    try:
                        acc.evaluations += all_schedules(start, end, acc)
                    except Violation as v:
                        acc.violation(v, v.witness)
                        acc.evaluations += 1
            acc.count('C13:month_edge_start_dates')
    for d in mine:
        if time.time() > t_end:
            acc.count('stopped_on_time_budget')
            break
        for st in tods:
            start = cal.at(d, st)
            for n in spec['lengths']:
                end = cal.at(d + dt.timedelta(days=n), cal.POST)
                try:
                    k = all_schedules(start, end, acc)
                    acc.evaluations += k
                except Violation as v:
                    acc.violation(v, v.witness)
                    acc.evaluations += 1
                if cal.end_of_month(start, end) and n >= 7:
                    acc.nontriv('C13', str(start), n)
        acc.count('window_start_dates_completed')
    for i in range(spec['random']):
        if time.time() > t_end:
            acc.count('stopped_on_time_budget')
            break
        start, end = random_range(rng, max_days=1100)
        try:
            k = all_schedules(start, end, acc)
            acc.evaluations += k
            bad = rng.choice(['SAT', 'SUN', '', 'WEDS', 'sat', 'Monday', 'XYZ', 'MONTHLY', 'FRIDGE', 'mon1', 'WED,FRI', ' TUE'])
            check_bad_weekday(bad, start, end, acc)
            if (end - start).days >= 10:
                schedules_survive_sessions(start, end, acc, rng)
        except Violation as v:
            acc.violation(v, v.witness)
            acc.evaluations += 1
        eoms = cal.end_of_month(start, end)
        if any(dt.date(e.year, e.month, 1).replace(day=1) and
               (dt.date(e.year + (e.month == 12), e.month % 12 + 1, 1) - dt.timedelta(days=1)).weekday() > 4 for e in eoms):
            acc.nontriv('C13', str(start), str(end))
            acc.count('C13:ranges_with_weekend_month_end')
        if i < 2:
            acc.sample({'start': str(start), 'end': str(end), 'end_of_month': [str(e) for e in eoms[:6]],
                        'buy_and_hold': str(cal.buy_and_hold(start)[0])})
        acc.count('random_ranges')
