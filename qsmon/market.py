"""
Synthetic markets: deterministic generation of daily bars from a small
JSON-able spec, CSV writing, "world rewriting" for twin runs, and the
independent point-in-time quote oracle over the written rows.

No qstrader import, no pandas.
"""
import datetime as dt
import os
import random
import shutil
import tempfile

from qsmon import cal
from qsmon import datawl


def bdays(first, last):
    d = first
    while d <= last:
        if d.weekday() <= 4:
            yield d
        d += dt.timedelta(days=1)


def build_rows(market):
    """asset symbol -> list of rows {date, open, close, adj} (sorted by date)."""
    first = dt.date.fromisoformat(market['first'])
    last = dt.date.fromisoformat(market['last'])
    out = {}
    for i, sym in enumerate(market['assets']):
        rng = random.Random('%s|%s' % (market['seed'], sym))
        start = first
        if sym in market.get('late', {}):
            start = dt.date.fromisoformat(market['late'][sym])
        price = 10 ** rng.uniform(0.7, 2.7)
        if sym in market.get('level', {}):
            price = market['level'][sym]
        ratio = market.get('ratio', {}).get(sym, 1.0)
        dec = market.get('decimals', 4)
        rows = []
        days = list(bdays(start, last))
        hol = set(market.get('holidays', []))
        if market.get('shift', {}).get(sym):
            days = days[market['shift'][sym]:]          # this file starts later ...
        elif market.get('shift'):
            days = days[:len(days) - max(market['shift'].values())]     # ... the others end earlier: equal row counts
        jm = market.get('jumps')
        back = None
        njumps = 0
        for j, d in enumerate(days):
            o = price * (1 + rng.gauss(0, 0.012))
            if back is not None:
                o, back = price * back, None            # yesterday's jump is undone at the next open
            c = o * (1 + rng.gauss(0.0003, 0.015))
            if jm and j > 0 and njumps < jm.get('max', 2) and rng.random() < jm['p']:
                njumps += 1          # (a handful per file: magnitudes stay where floats still count whole shares)
                # a crash or a spike within one session (a leveraged or short book can lose more than it has); half of them
                # revert the next day
                f = (1.0 - jm['size']) if rng.random() < 0.5 else 1.0 / (1.0 - jm['size'])
                c = o * f
                if rng.random() < 0.5:
                    back = 1.0 / f
            price = c
            if j > 0 and rng.random() < market.get('missing_p', 0.0):
                continue        # a missing day (the first day of every file is always present)
            if j > 0 and d.isoformat() in hol:
                continue        # a market holiday: no file has a bar
            o, c = round(max(o, 0.05), dec), round(max(c, 0.05), dec)
            if market.get('int_closes'):
                c = float(max(1, round(c)))          # closes quoted in whole units, opens with decimals
                ratio = 1.0
            a = round(c * ratio, dec + 2)
            if market.get('adj_round') is not None:
                a = round(c * ratio, market['adj_round'])      # vendor-style: adjusted close quoted to cents
            nan_p = market.get('nan_p', 0.0)
            if nan_p and (j >= market.get('nan_from_row', 0)):
                lead = j < 2 and market.get('nan_leading')
                if rng.random() < (0.5 if lead else nan_p):
                    o = None
                if rng.random() < (0.5 if lead else nan_p):
                    c = a = None
                elif market.get('nan_adj_only') and rng.random() < nan_p:
                    a = None                                  # Adj Close blank on its own
            row = {'date': d.isoformat(), 'open': o, 'close': c, 'adj': a}
            if rows and market.get('stale_p') and rng.random() < market['stale_p']:
                # an untraded day: the vendor repeats the previous bar in full (every column, volume included)
                prev = rows[-1]
                row = dict(prev, date=d.isoformat(), volume=prev.get('volume', 1000 + len(rows) - 1))
                if prev['close'] is not None:
                    price = prev['close']
            rows.append(row)
        out[sym] = rows
    for sym, src in market.get('clone', {}).items():
        if sym in out and src in out:
            out[sym] = [dict(r) for r in out[src]]      # a duplicated series (two share classes of one company)
    return out


def rewrite(rows_by_sym, rw):
    """World B: every bar dated after day T replaced according to rw['kind']."""
    T = rw['T']
    out = {}
    for sym, rows in rows_by_sym.items():
        rng = random.Random('%s|%s|rw' % (rw.get('seed', 0), sym))
        keep = [dict(r) for r in rows if r['date'] <= T]
        fut = [dict(r) for r in rows if r['date'] > T]
        kind = rw['kind']
        if kind == 'nonpositive':
            # "arbitrary other values": zero and negative prices somewhere in the future
            for r in fut:
                if rng.random() < 0.3:
                    r['open'] = rng.choice([0.0, -1.0, -r['open'] if r['open'] else -5.0])
                if rng.random() < 0.3:
                    r['close'] = rng.choice([-0.01, -2.5])
                    r['adj'] = r['close']
            if fut and all((r['open'] or 1) > 0 and (r['close'] or 1) > 0 for r in fut):
                fut[-1]['close'] = fut[-1]['adj'] = -1.0
            out[sym] = keep + fut
            continue
        only = rw.get('only')          # optional: restrict to listed (sym, date) rows (directed twin)
        if only is not None:
            new = []
            for r in fut:
                if [sym, r['date']] in only or (sym, r['date']) in only:
                    r['open'] = round((r['open'] or 3.0) * 1.37 + 1.0, 4)
                    r['close'] = round((r['close'] or 5.0) * 0.61 + 2.0, 4)
                    r['adj'] = r['close']
                new.append(r)
            out[sym] = keep + new
            continue
        if kind in ('delete', 'remove_all') and not keep:
            kind = 'reseed'     # a header-only CSV cannot be loaded: rewrite the values instead
        if kind == 'reseed':
            for r in fut:
                base = 10 ** rng.uniform(0.5, 3)
                r['open'] = round(base, 4)
                r['close'] = round(base * rng.uniform(0.8, 1.25), 4)
                r['adj'] = round(r['close'] * rng.choice([1.0, 0.5]), 6)
            out[sym] = keep + fut
        elif kind == 'scale':
            k = rng.choice([0.1, 3.7, 25.0])
            for r in fut:
                for f, nd in (('open', 4), ('close', 4), ('adj', 6)):
                    if r[f] is not None:
                        r[f] = round(r[f] * k, nd)
            out[sym] = keep + fut
        elif kind == 'nan':
            for r in fut:
                if rng.random() < 0.7:
                    r['open'] = None
                if rng.random() < 0.7:
                    r['close'] = None
                    r['adj'] = None
            out[sym] = keep + fut
        elif kind == 'delete':
            out[sym] = keep + [r for r in fut if rng.random() < 0.4]
        elif kind == 'remove_all':
            out[sym] = keep
        else:
            raise ValueError(kind)
    return out


class World(object):
    """A directory of CSV files for one set of rows + the quote oracle over them."""

    extra = None        # optional lower-priority World: the handler asks it where this one has no value yet

    def __init__(self, rows_by_sym, adjust, shuffle_seed=None, int_closes=False):
        self.rows = rows_by_sym
        self.adjust = adjust
        self.dir = tempfile.mkdtemp(prefix='qsmon-world-')
        for sym, rows in rows_by_sym.items():
            order = list(range(len(rows)))
            if shuffle_seed is not None:
                random.Random('%s|%s' % (shuffle_seed, sym)).shuffle(order)
            datawl.write_csv(os.path.join(self.dir, sym + '.csv'), rows, order, int_closes=int_closes)
        self.ev = {'EQ:' + sym: datawl.events(rows, adjust) for sym, rows in rows_by_sym.items()}

    def quote(self, asset, t):
        """Exact point-in-time price (Fraction) or None (NaN)."""
        q = datawl.expected(self.ev[asset], t)[0] if asset in self.ev else None
        if q is None and self.extra is not None:
            return self.extra.quote(asset, t)
        return q

    def alt_quote(self, asset, t):
        """The same files read with the OTHER price-adjustment setting."""
        if not hasattr(self, 'ev_alt'):
            self.ev_alt = {'EQ:' + sym: datawl.events(rows, not self.adjust) for sym, rows in self.rows.items()}
        return datawl.expected(self.ev_alt[asset], t)[0] if asset in self.ev_alt else None

    def source_of(self, asset, value):
        """(date, field) of the cell a returned number comes from, or None."""
        a, e = datawl.decode({asset: self.ev.get(asset, [])}, value, asset)
        if e is None and self.extra is not None:
            return self.extra.source_of(asset, value)
        return None if e is None else (e[4][0], e[4][1], e[0])

    def close(self):
        shutil.rmtree(self.dir, ignore_errors=True)
