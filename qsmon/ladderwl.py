"""
W-LADDER: fill ladders driven directly on a real Portfolio (and through it
PositionHandler / Position). Every pattern of (side x size class relative to
the current net position) up to k fills is enumerated; each pattern is drawn
several times with random real-valued prices, commissions and marks. Also long
random ladders over several assets with subscriptions/withdrawals and
(optionally) invalid requests.
"""
import itertools
import random
import time

import pandas as pd

from qsmon import brokerwl as bw
from qsmon.core import F, Violation, close  # noqa

SIDES = ('buy', 'sell')
SIZES = ('smaller', 'equal', 'larger')
ATOMS = [(s, z) for s in SIDES for z in SIZES]


def n_patterns(k):
    return len(ATOMS) ** k


def pattern_at(index, k):
    out = []
    for _ in range(k):
        index, r = divmod(index, len(ATOMS))
        out.append(ATOMS[r])
    return out


def comm_for(rng, mode, price, qty):
    if mode == 'zero':
        return 0.0
    if mode == 'flat':
        return rng.choice([1.0, 9.99, 0.35, 25.0, 1, 5, 12])          # whole-number commissions arrive as ints too
    if rng.random() < 0.12:
        return -abs(price * qty) * rng.choice([0.0002, 0.001])      # a rebate: commissions are real-valued (C03's quantifier)
    return abs(price * qty) * rng.choice([0.0005, 0.001, 0.01, 0.07])


def ladder_case(rng, pattern, asset='EQ:AAA', fractional=False):
    """Concrete ops for one abstract pattern. fractional: real-valued quantities (dyadic, so sums stay exact)."""
    t = bw.ts(rng.choice(bw.STARTS))
    start = t
    ops = []
    net = 0
    mode = rng.choice(['zero', 'flat', 'prop', 'prop'])
    marks = rng.random() < 0.7
    huge = (not fractional) and rng.random() < 0.15
    n = 0
    for side, size in pattern:
        sgn = 1 if side == 'buy' else -1
        opposing = net != 0 and (net > 0) != (sgn > 0)
        base = abs(net) if net else (rng.randint(10 ** 5, 5 * 10 ** 6) if huge else rng.randint(2, 5000))
        ib = int(base)
        if size == 'equal':
            q = base
        elif size == 'smaller':
            q = rng.randint(1, ib - 1) if ib > 1 else 1
            if huge and opposing and ib > 10:
                q = ib - rng.randint(1, 5)              # leaves a remainder of a few units on a very large position
        else:
            q = ib + rng.randint(1, max(2, ib * 2))
            if huge and opposing:
                q = ib + rng.randint(1, 5)              # flips through zero by a few units
        if not opposing and rng.random() < 0.5:
            q = max(1, int(10 ** rng.uniform(0, 6.5 if huge else 5)))
        if fractional and size != 'equal' and rng.random() < 0.6:
            q = q + rng.choice([0.25, 0.5, 0.75, 0.125])
        if fractional and rng.random() < 0.15:
            q = rng.choice([0.5, 0.25, 0.75])          # a sub-unit fill (real-valued quantities are in C03's quantifier)
        elif not fractional:
            while 0 < abs(net + sgn * q) < 1:
                q = q + 1
        qty = sgn * q
        price = bw.rand_price(rng)
        t = t + pd.Timedelta(rng.choice([pd.Timedelta(0), pd.Timedelta(microseconds=1), pd.Timedelta(minutes=13),
                                          pd.Timedelta(days=1)]))
        n += 1
        ops.append(['pf_txn', 'P', str(t), asset, qty, price, comm_for(rng, mode, price, qty), 'L%d' % n])
        net += qty
        if marks and rng.random() < 0.6:
            t = t + pd.Timedelta(rng.choice([pd.Timedelta(0), pd.Timedelta(hours=2)]))
            ops.append(['pf_mark', 'P', asset, bw.rand_price(rng), str(t)])
    cfg = {'start': str(start), 'starting_cash': rng.choice([0.0, 1e5, 1e7])}
    return {'level': 'portfolio', 'cfg': cfg, 'ops': ops, 'pattern': ['%s-%s' % a for a in pattern]}


class PGen(object):
    """Lock-step generator of long random portfolio-level histories."""

    def __init__(self, rng, sc, faults):
        self.rng, self.sc, self.faults = rng, sc, faults
        self.t = sc.t
        self.assets = (bw.ODD_ASSETS if rng.random() < 0.2 else bw.ASSETS)[:rng.randint(1, 4)]
        self.mode = rng.choice(['zero', 'flat', 'prop'])
        self.n = 0
        self.queue = []
        # two instruments traded and marked identically (a dual listing, two share classes, a duplicated ticker): the
        # second asset mirrors every fill and mark of the first, so their per-position figures are bit-identical
        self.twin = len(self.assets) >= 2 and rng.random() < 0.2

    def adv(self):
        self.t = self.t + pd.Timedelta(self.rng.choice([
            pd.Timedelta(0), pd.Timedelta(microseconds=1), pd.Timedelta(minutes=30), pd.Timedelta(days=1)]))
        return str(self.t)

    def next(self):
        rng, sc = self.rng, self.sc
        mp = sc.model.ports['P']
        p = sc.pf
        held = [a for a, x in mp.pos.items() if x.net != 0]
        if self.faults and rng.random() < 0.2:
            clock = p.current_dt
            earlier = str(clock - pd.Timedelta(rng.choice([pd.Timedelta(microseconds=1), pd.Timedelta(days=1)])))
            k = rng.choice(['sub_back', 'sub_neg', 'wd_back', 'wd_neg', 'wd_over', 'txn_back', 'mark_neg', 'mark_back',
                            'txn_behind_pos', 'txn_behind_pos', 'mark_behind_pos', 'mark_repeat', 'mark_repeat'])
            if k == 'mark_repeat':
                stale = [(a, p.pos_handler.positions[a]) for a in held if p.pos_handler.positions[a].current_dt < clock]
                if stale:
                    a, pos_ = rng.choice(stale)
                    return ['pf_mark', 'P', a, float(pos_.current_price), str(pos_.current_dt)]
            if k in ('txn_behind_pos', 'mark_behind_pos'):
                cands = [(a, p.pos_handler.positions[a].current_dt) for a in held
                         if p.pos_handler.positions[a].current_dt > clock]
                if cands:
                    a, pclock = rng.choice(cands)
                    between = str(clock + (pclock - clock) * rng.choice([0.0, 0.5, 0.999]))
                    if k == 'mark_behind_pos':
                        return ['pf_mark', 'P', a, bw.rand_price(rng), between]
                    return ['pf_txn', 'P', between, a, rng.choice([-7, 11, 250]), bw.rand_price(rng), 0.5, 'bad']
            amt = bw.rand_amount(rng) + 0.01
            if k == 'sub_back':
                return ['pf_sub', 'P', earlier, amt]
            if k == 'sub_neg':
                return ['pf_sub', 'P', str(self.t), -amt]
            if k == 'wd_back':
                return ['pf_wd', 'P', earlier, 0.0]
            if k == 'wd_neg':
                return ['pf_wd', 'P', str(self.t), -amt]
            if k == 'wd_over':
                return ['pf_wd', 'P', str(self.t), max(p.cash, 0.0) * rng.choice([1.0, 1.0, 1.0000001, 2.0]) + rng.choice([0.001, 0.0049, 0.0098, 0.01, 1e3])]
            if k == 'txn_back':
                return ['pf_txn', 'P', earlier, rng.choice(self.assets), rng.choice([-7, 11]), bw.rand_price(rng), 0.0, 'bad']
            if k == 'mark_neg' and held:
                return ['pf_mark', 'P', rng.choice(held), -bw.rand_price(rng), str(self.t)]
            if k == 'mark_back' and held:
                return ['pf_mark', 'P', rng.choice(held), bw.rand_price(rng), earlier]
        if self.queue:
            return self.queue.pop(0)
        if rng.random() < 0.06:
            # fund the portfolio so that the next purchase leaves a residue of a fraction of a cent (either sign)
            price = float(rng.randint(100, 9999)) / 100.0
            q = rng.randint(1, 500)
            comm = comm_for(rng, self.mode, price, q) if self.mode != 'prop' else round(price * q * 0.001, 6)
            need = price * q + comm - p.cash + rng.choice([0.004, 0.001, 0.0049, -0.003, 0.0])
            if need > 0:
                a_ = rng.choice(self.assets)
                self.n += 1
                self.queue.append(['pf_txn', 'P', self.adv(), a_, q, price, comm, 'X%d' % self.n])
                return ['pf_sub', 'P', self.adv(), need]
        r = rng.random()
        if r < 0.08:
            return ['pf_sub', 'P', self.adv(), bw.rand_amount(rng)]
        if r < 0.14 and p.cash > 0:
            return ['pf_wd', 'P', self.adv(), float(p.cash) * rng.choice([0.0, 0.25, 1.0])]
        if r < 0.34 and held:
            a_ = rng.choice(held)
            px_ = bw.rand_price(rng)
            if self.twin and a_ in self.assets[:2]:
                a_, b_ = self.assets[0], self.assets[1]
                if a_ in held and b_ in held:
                    self.queue.append(['pf_mark', 'P', b_, px_, self.adv()])
                    return ['pf_mark', 'P', a_, px_, str(self.t)]
            return ['pf_mark', 'P', a_, px_, self.adv()]
        a = rng.choice(self.assets)
        if self.twin and a == self.assets[1]:
            a = self.assets[0]
        net = mp.pos[a].net if a in mp.pos else 0
        x = rng.random()
        if net and abs(net) > 20 and rng.random() < 0.1:
            q = -net + (1 if net > 0 else -1) * rng.randint(1, 5)
        elif not net and rng.random() < 0.06:
            q = rng.choice([1, -1]) * rng.randint(10 ** 5, 5 * 10 ** 6)
        elif net and x < 0.2:
            q = -net
        elif net and x < 0.35:
            q = -net - (1 if net > 0 else -1) * rng.randint(1, abs(net) + 3)
        elif net and x < 0.5 and abs(net) > 1:
            q = -(1 if net > 0 else -1) * rng.randint(1, abs(net) - 1)
        else:
            q = max(1, int(10 ** rng.uniform(0, 5))) * rng.choice([1, -1])
        price = bw.rand_price(rng)
        self.n += 1
        comm = comm_for(rng, self.mode, price, q)
        t_ = self.adv()
        if self.twin and a == self.assets[0]:
            self.queue.append(['pf_txn', 'P', t_, self.assets[1], q, price, comm, 'T%d' % self.n])
        return ['pf_txn', 'P', t_, a, q, price, comm, 'R%d' % self.n]


def wide_portfolio_script(rng):
    """One portfolio holding MANY assets at once (15, 16, 17, 30, 64): longs and shorts, with commissions on both sides."""
    n = rng.choice([15, 16, 17, 30, 64])
    fills = []
    for i in range(n):
        a = 'EQ:W%02d' % i
        q = rng.choice([1, -1]) * rng.randint(1, 900)
        p = bw.rand_price(rng)
        fills.append([a, q, p, round(abs(q * p) * rng.choice([0.0, 0.001, 0.01]) + rng.choice([0.0, 1.0]), 4)])
        if rng.random() < 0.5:
            q2 = -int(q / abs(q)) * rng.randint(1, abs(q))          # part (or all) of it traded back
            p2 = bw.rand_price(rng)
            fills.append([a, q2, p2, round(abs(q2 * p2) * rng.choice([0.0, 0.001, 0.01]) + rng.choice([0.0, 1.0]), 4)])
    marks = {'EQ:W%02d' % i: bw.rand_price(rng) for i in range(n) if rng.random() < 0.7}
    if rng.random() < 0.5:
        # two share classes / a duplicated series: the same fills at the same prices, the same mark - equal figures
        fills += [['EQ:W00B', q, p, c] for a, q, p, c in fills if a == 'EQ:W00']
        if 'EQ:W00' in marks:
            marks['EQ:W00B'] = marks['EQ:W00']
    return {'start': rng.choice(bw.STARTS), 'fills': fills, 'marks': marks}


def wide_portfolio_case(sp, acc, prop):
    """The portfolio's aggregate figures are the sums of its positions' figures and follow the fills (C02: market value and
    equity; C03: total = realised + unrealised = market value - cost of the fills - commissions)."""
    bw.install()
    from qstrader.broker.portfolio.portfolio import Portfolio
    from qstrader.broker.transaction.transaction import Transaction
    t = bw.ts(sp['start'])
    cash0 = 1e9
    pf = Portfolio(t, starting_cash=cash0, portfolio_id='W')
    net, last, cost, comm = {}, {}, {}, {}
    for k, (a, q, p, c) in enumerate(sp['fills']):
        t = t + pd.Timedelta(minutes=1)
        pf.transact_asset(Transaction(a, q, t, p, 'w%d' % k, commission=c))
        if net.get(a, 0) == 0:
            cost[a], comm[a] = F(0), F(0)          # a new opening: P&L counts from here
        net[a] = net.get(a, 0) + q
        last[a] = p
        cost[a] += F(p) * q
        comm[a] += F(c)
    t = t + pd.Timedelta(minutes=1)
    for a, p in sp['marks'].items():
        pf.update_market_value_of_asset(a, p, t)
        if net.get(a, 0) != 0:
            last[a] = p
    held = {a: q for a, q in net.items() if q != 0}
    mv = sum((F(last[a]) * q for a, q in held.items()), F(0))
    scale = sum((abs(F(last[a]) * q) + abs(cost[a]) for a, q in held.items()), F(1))
    pos = pf.pos_handler.positions
    if prop == 'C02':
        if not close(pf.total_market_value, mv, scale):
            raise Violation('C02', 'wide-portfolio/market-value', 'a portfolio holding %d assets reports market value %r; quantity x latest '
                            'price over its holdings gives %r' % (len(held), pf.total_market_value, float(mv)), sp)
        cash = F(cash0) - sum((F(p) * q + F(c) for _, q, p, c in sp['fills']), F(0))
        if not close(pf.total_equity, cash + mv, scale + abs(F(cash0))):
            raise Violation('C02', 'wide-portfolio/equity', 'a portfolio holding %d assets reports equity %r; cash + market value is %r'
                            % (len(held), pf.total_equity, float(cash + mv)), sp)
    else:
        tot = sum((F(last[a]) * q - cost[a] - comm[a] for a, q in held.items()), F(0))
        got = (pf.total_pnl, pf.total_realised_pnl, pf.total_unrealised_pnl)
        parts = (sum(x.total_pnl for x in pos.values()), sum(x.realised_pnl for x in pos.values()), sum(x.unrealised_pnl for x in pos.values()))
        if not close(got[0], tot, scale):
            raise Violation('C03', 'wide-portfolio/total-pnl', 'a portfolio holding %d assets reports total P&L %r; market value - cost of the '
                            'fills - commissions over its open positions gives %r' % (len(held), got[0], float(tot)), sp)
        if not close(got[0], F(got[1]) + F(got[2]), scale):
            raise Violation('C03', 'wide-portfolio/total-is-not-realised-plus-unrealised', 'a portfolio holding %d assets reports total %r, '
                            'realised %r, unrealised %r' % (len(held), got[0], got[1], got[2]), sp)
        for nm, g_, p_ in zip(('total', 'realised', 'unrealised'), got, parts):
            if not close(g_, F(p_), scale):
                raise Violation('C03', 'wide-portfolio/aggregate-vs-positions/%s' % nm, 'a portfolio holding %d assets reports %s P&L %r; its '
                                'positions\' own figures add up to %r' % (len(held), nm, g_, p_), sp)
    acc.count('%s:wide_portfolios_checked' % prop)
    acc.see('%s:wide_portfolio_sizes' % prop, len(held))


def long_history_case(sp, acc):
    """C01: 'the event history lists exactly these cash movements' also for a portfolio that has been trading for years: n fills
    (n beyond 2**16) through the public Portfolio API; every movement is listed, the first entry is the opening subscription,
    the last running balance is the cash (cents)."""
    bw.install()
    from qstrader.broker.portfolio.portfolio import Portfolio
    from qstrader.broker.transaction.transaction import Transaction
    t = bw.ts(sp['start'])
    pf = Portfolio(t, starting_cash=sp['cash'], portfolio_id='L')
    cash = F(sp['cash'])
    n = sp['n']
    for k in range(n):
        q = 1 if k % 2 == 0 else -1
        p = 10.0 + (k % 7) * 0.25
        if k % 64 == 0:
            t = t + pd.Timedelta(minutes=1)
        pf.transact_asset(Transaction('EQ:L%d' % (k % 3), q, t, p, 'h%d' % k, commission=0.25))
        cash -= F(p) * q + F(0.25)
    hist = pf.history
    df = pf.history_to_df()
    if len(hist) != n + 1 or len(df) != n + 1:
        raise Violation('C01', 'long-history/length', 'after one subscription and %d fills the history lists %d events (history_to_df: %d '
                        'rows)' % (n, len(hist), len(df)), sp)
    if hist[0].type != 'subscription':
        raise Violation('C01', 'long-history/first-event', 'the first event of the history is %r, not the opening subscription' % (hist[0].type,), sp)
    if not close(pf.cash, cash, abs(F(sp['cash']))) or abs(F(hist[-1].balance) - cash) > F('0.0100001'):
        raise Violation('C01', 'long-history/balance', 'cash %r, last running balance %r, ledger %r' % (pf.cash, hist[-1].balance, float(cash)), sp)
    acc.count('C01:long_histories_checked')
    acc.count('C01:history_events_checked', n + 1)


def random_ladder(rng, acc, prop, nops, faults):
    cfg = {'start': rng.choice(bw.STARTS), 'starting_cash': rng.choice([0.0, 1e5, 1e7, 333.33])}
    sc = bw.PortfolioScenario(cfg, {prop}, acc)
    gen = PGen(rng, sc, faults)
    ops = []
    case = {'level': 'portfolio', 'cfg': cfg, 'ops': ops}
    try:
        for _ in range(nops):
            op = gen.next()
            ops.append(op)
            n_ref = acc.counters.get('C15:refusals_checked', 0)
            st = sc.state_class()
            sc.step(op)
            if prop == 'C15' and acc.counters.get('C15:refusals_checked', 0) > n_ref and st != 'empty':
                sc.flags.add('refusal-in-state')
    except bw.Stop:
        acc.count('cases_stopped_on_divergence')
    except bw.Violation as v:
        if v.prop == prop:
            acc.violation(v, case)
    acc.evaluations += 1
    acc.count('ops_executed', len(ops))
    acc.count('random_ladders')
    bw.finish_case(sc, acc, prop, ops)
    return sc


def shard_ladders(spec, acc, prop):
    """spec: k, lo, hi (pattern index range), draws, random (count), rng, budget_s."""
    rng = random.Random(spec['rng'])
    t_end = time.time() + spec['budget_s']
    k = spec['k']
    done = 0
    for idx in range(spec['lo'], spec['hi']):
        if time.time() > t_end:
            acc.count('stopped_on_time_budget')
            break
        pat = pattern_at(idx, k)
        for d in range(spec['draws']):
            case = ladder_case(rng, pat, fractional=(prop == 'C03' and d == spec['draws'] - 1))
            sc = bw.run_case(case, acc, prop)
            acc.evaluations += 1
            acc.count('ops_executed', len(case['ops']))
            if d == 0 and idx % 997 == 0:
                acc.sample(case)
        acc.count('ladder_patterns_completed')
        done += 1
    acc.see('ladder_k', k)
    for i in range(spec.get('random', 0)):
        if time.time() > t_end:
            acc.count('stopped_on_time_budget')
            break
        random_ladder(rng, acc, prop, rng.choice([20, 60, 150, 300]), faults=(prop == 'C15'))
    acc.count('contract_evaluations', bw.CONTRACT_EVALS['n'])
    acc.count('hook:transact_asset', bw._Instr.hits['transact_asset'])


# ---------------------------------------------------------------------------
# Direct use of the Position class (C03): the same Position object may pass through exactly zero and trade on.
# The identities are over all fills since the position was opened.
# ---------------------------------------------------------------------------

def position_case(rng):
    n = rng.choice([2, 3, 4, 6, 10, 25])
    fills, marks = [], {}
    net = 0
    mode = rng.choice(['zero', 'flat', 'prop'])
    for i in range(n):
        x = rng.random()
        if i and net and x < 0.3:
            q = -net                                     # trade back to exactly flat, keep the object
        elif i and net and x < 0.45:
            q = -net - (1 if net > 0 else -1) * rng.randint(1, abs(net) + 5)
        elif i and net and x < 0.6 and abs(net) > 1:
            q = -(1 if net > 0 else -1) * rng.randint(1, abs(net) - 1)
        else:
            q = max(1, int(10 ** rng.uniform(0, 5))) * rng.choice([1, -1])
        price = bw.rand_price(rng)
        fills.append([q, price, comm_for(rng, mode, price, q)])
        net += q
        if rng.random() < 0.4:
            marks[i] = bw.rand_price(rng)
    return {'kind': 'position', 'fills': fills, 'marks': {str(k): v for k, v in marks.items()}}


def run_position_case(case, acc, prop='C03'):
    from fractions import Fraction
    from qstrader.broker.portfolio.position import Position
    from qstrader.broker.transaction.transaction import Transaction
    from qsmon.core import F, close, Violation
    t = bw.ts('2020-06-01 15:00:00')
    pos = None
    bq = sq = 0
    bpq = spq = bc = sc = Fraction(0)
    last = None
    for i, (q, price, comm) in enumerate(case['fills']):
        t = t + pd.Timedelta(minutes=7)
        txn = Transaction('EQ:AAA', q, t, price, 'D%d' % i, commission=comm)
        if pos is None:
            pos = Position.open_from_transaction(txn)
        else:
            pos.transact(txn)
        if q > 0:
            bq += q; bpq += F(price) * q; bc += F(comm)
        else:
            sq += -q; spq += F(price) * (-q); sc += F(comm)
        last = price
        m = case['marks'].get(str(i))
        if m is not None:
            if i % 3 == 0:
                pos.update_current_price(m)             # the timestamp is optional
            else:
                t = t + pd.Timedelta(minutes=1)
                pos.update_current_price(m, t)
            last = m
        net = bq - sq
        mv = F(last) * net
        scale = bpq + spq + abs(mv) + bc + sc + 1
        total = mv - (bpq - spq) - (bc + sc)
        if net > 0:
            unreal = (F(last) - (bpq + bc) / bq) * net
        elif net < 0:
            unreal = (F(last) - (spq - sc) / sq) * net
        else:
            unreal = Fraction(0)
        w = {'fill_index': i, 'fills_so_far': case['fills'][:i + 1]}
        if pos.net_quantity != net:
            raise Violation(prop, 'position/quantity', 'Position.net_quantity %r after fills summing to %d' % (pos.net_quantity, net), w)
        if not close(pos.market_value, mv, abs(mv), rel=1e-12):
            raise Violation(prop, 'position/market-value', 'market value %r, net %d x price %r' % (pos.market_value, net, last), w)
        if prop != 'C03':
            acc.count('%s:direct_position_checks' % prop)
            continue
        if not close(pos.total_pnl, total, scale):
            raise Violation('C03', 'position/total-pnl', 'Position object (same object kept through flat) reports total P&L %r after '
                            'fill %d; market value - cost of fills - commissions = %r' % (pos.total_pnl, i, float(total)), w)
        if not close(pos.unrealised_pnl, unreal, scale):
            raise Violation('C03', 'position/unrealised-pnl', 'unrealised %r, expected %r after fill %d' % (pos.unrealised_pnl, float(unreal), i), w)
        if not close(F(pos.realised_pnl) + F(pos.unrealised_pnl), F(pos.total_pnl), scale):
            raise Violation('C03', 'position/split', 'realised + unrealised != total', w)
        acc.count('C03:direct_position_checks')
        if i % 3 == 1:
            # a position restored in mid-life through the public constructor (e.g. from saved state) reports the same figures
            twin = Position(pos.asset, pos.current_price, pos.current_dt, pos.buy_quantity, pos.sell_quantity,
                            pos.avg_bought, pos.avg_sold, pos.buy_commission, pos.sell_commission)
            for nm in ('net_quantity', 'market_value', 'realised_pnl', 'unrealised_pnl', 'total_pnl'):
                a_, b_ = getattr(twin, nm), getattr(pos, nm)
                if not (a_ == b_ or (a_ != a_ and b_ != b_)):
                    raise Violation('C03', 'position/restored-' + nm.replace('_', '-'), 'a Position built by the constructor from the '
                                    'quantities, averages and commissions of a live position reports %s = %r; the live one %r'
                                    % (nm, a_, b_), w)
            acc.count('C03:positions_restored_through_the_constructor')
        if net == 0 and i + 1 < len(case['fills']):
            acc.count('C03:direct_position_traded_on_after_flat')
