"""
Entry point:  python -m qsmon.cli <Cxx> <quick|thorough>
              python -m qsmon.cli --replay <file>
              python -m qsmon.cli --shard <Cxx> <spec.json> <out.json>   (internal)

Exit status: 0 held on everything observed (KNOWN-FINDING lines allowed),
             1 violation (line `VIOLATION property=<id> replay=<path>`),
             2 inconclusive (line `INCONCLUSIVE property=<id> reason=...`).
"""
import importlib
import json
import os
import shutil
import subprocess
import sys
import tempfile
import time
import traceback
from concurrent.futures import ThreadPoolExecutor

from qsmon import core

PROPS = ['C%02d' % i for i in range(1, 20)]
PY = sys.executable
NPROC = int(os.environ.get('QSMON_JOBS', '16'))


def load_prop(pid):
    return importlib.import_module('qsmon.props.%s' % pid.lower())


def load_known():
    path = os.path.join(core.VERIF, 'known_findings.json')
    if not os.path.exists(path):
        return []
    with open(path) as f:
        return json.load(f).get('findings', [])


def shard_main(pid, specfile, outfile):
    core.boot()
    mod = load_prop(pid)
    with open(specfile) as f:
        spec = json.load(f)
    acc = core.Acc()
    t0 = time.time()
    # the machine's local time zone is not part of any property: every third shard runs west of UTC, every third east
    zone = [None, 'EST5', 'JST-9'][int(spec.get('shard', 0)) % 3]
    if zone is not None:
        os.environ['TZ'] = zone
        time.tzset()
    acc.sets.setdefault('local_time_zones_of_the_shards', set()).add(zone or 'UTC')
    if int(spec.get('shard', 0)) % 4 == 3:
        import calendar
        calendar.setfirstweekday(calendar.SUNDAY)      # another process-wide setting of the host program that no property depends on
        acc.sets.setdefault('shards_with_calendar_first_weekday', set()).add('SUNDAY')
    if int(spec.get('shard', 0)) % 5 == 2:
        # the host program works with a short decimal context (the library's figures are floats: no property depends on it)
        import decimal
        decimal.getcontext().prec = 6
        acc.sets.setdefault('shards_with_decimal_context', set()).add('prec=6')
    try:
        mod.run_shard(spec, acc)
    except Exception:
        acc.inconclusive.append(
            'shard %s crashed: %s' % (spec.get('shard'), traceback.format_exc()[-1500:]))
    acc.counters['shard_wall_ms'] = int((time.time() - t0) * 1000)
    core.dump(outfile, acc.to_json())
    return 0


def run_one(pid, spec, scratch, timeout):
    specfile = os.path.join(scratch, 'spec-%s.json' % spec['shard'])
    outfile = os.path.join(scratch, 'out-%s.json' % spec['shard'])
    with open(specfile, 'w') as f:
        json.dump(spec, f)
    env = dict(os.environ)
    env['PYTHONDONTWRITEBYTECODE'] = '1'
    env.setdefault('PYTHONHASHSEED', '0')
    env['OMP_NUM_THREADS'] = '1'
    env['OPENBLAS_NUM_THREADS'] = '1'
    env['MKL_NUM_THREADS'] = '1'
    try:
        p = subprocess.run(
            [PY, '-m', 'qsmon.cli', '--shard', pid, specfile, outfile],
            cwd=core.VERIF, env=env, timeout=timeout,
            stdout=subprocess.PIPE, stderr=subprocess.STDOUT)
    except subprocess.TimeoutExpired:
        return None, 'shard %s timed out after %ss' % (spec['shard'], timeout)
    if p.returncode != 0 or not os.path.exists(outfile):
        return None, 'shard %s exited %s: %s' % (
            spec['shard'], p.returncode, p.stdout.decode(errors='replace')[-1500:])
    with open(outfile) as f:
        return json.load(f), None


def classify(violations, known, pid):
    """Split violations into (known-open, new) by mechanism key."""
    open_keys = {k['key']: k for k in known
                 if k.get('property') == pid and k.get('status') == 'open'}
    seen_known, new = {}, []
    for v in violations:
        if v['key'] in open_keys:
            seen_known.setdefault(v['key'], []).append(v)
        else:
            new.append(v)
    return open_keys, seen_known, new


def write_replay(pid, seed, v, idx):
    d = os.environ.get('QSMON_REPLAY_DIR') or os.path.join(core.VERIF, 'replays')
    os.makedirs(d, exist_ok=True)
    path = os.path.join(d, '%s-seed%s-%s-%d.json' % (pid, seed, v['key'].replace('/', '_'), idx))
    core.dump(path, {'property': pid, 'seed': seed, 'key': v['key'], 'msg': v['msg'],
                     'witness': v['witness'], 'case': v['case']})
    return path


def check_main(pid, tier):
    t0 = time.time()
    seed = int(os.environ.get('VERIF_SEED', '0'))
    tier = os.environ.get('VERIF_TIER', tier) if tier is None else tier
    core.ensure_deps()
    mod = load_prop(pid)
    specs = mod.plan(tier, seed)
    for i, s in enumerate(specs):
        s.setdefault('shard', i)
        s['tier'] = tier
        s['seed'] = seed
    scratch = tempfile.mkdtemp(prefix='qsmon-%s-' % pid)
    acc = core.Acc()
    shard_timeout = getattr(mod, 'SHARD_TIMEOUT', {'quick': 240, 'thorough': 1800})[tier]
    try:
        with ThreadPoolExecutor(max_workers=NPROC) as ex:
            futs = [ex.submit(run_one, pid, s, scratch, shard_timeout) for s in specs]
            for f in futs:
                res, err = f.result()
                if err:
                    acc.inconclusive.append(err)
                else:
                    acc.merge_json(res)
    finally:
        shutil.rmtree(scratch, ignore_errors=True)

    if hasattr(mod, 'finish'):
        for reason in mod.finish(acc, tier) or []:
            acc.inconclusive.append(reason)

    known = load_known()
    open_keys, seen_known, new = classify(acc.violations, known, pid)

    status = 0
    lines = []
    for key, vs in sorted(seen_known.items()):
        lines.append('KNOWN-FINDING: property=%s %s [key=%s, seen %d times]' % (
            pid, open_keys[key]['what_fails'], key, len(vs)))
    replay_paths = []
    by_key = {}
    for v in new:
        by_key.setdefault(v['key'], []).append(v)
    for key, vs in sorted(by_key.items()):
        path = write_replay(pid, seed, vs[0], 0)
        replay_paths.append(path)
        lines.append('VIOLATION property=%s replay=%s' % (pid, path))
        lines.append('  key=%s count=%d: %s' % (key, len(vs), vs[0]['msg'][:600]))
        status = 1
    wall = time.time() - t0

    distinct = len(acc.nontrivial)
    if status == 0 and acc.inconclusive:
        status = 2
    if status == 0 and (acc.evaluations < 1 or distinct < 2):
        acc.inconclusive.append('too few cases observed (evaluations=%d distinct=%d)'
                                % (acc.evaluations, distinct))
        status = 2

    cov = {
        'evaluations': int(acc.evaluations),
        'distinct_nontrivial': int(distinct),
        'rule': mod.RULE,
        'samples': acc.samples[:3] or ['(none)'],
        'observed': {k: int(v) for k, v in sorted(acc.counters.items())},
        'observed_sets': {k: (sorted(v) if len(v) <= 80 else
                              {'count': len(v), 'first': sorted(v)[:40]})
                          for k, v in sorted(acc.sets.items())},
        'shards': len(specs),
        'inconclusive': acc.inconclusive[:10],
        'known_findings_seen': {k: len(v) for k, v in seen_known.items()},
        'new_violation_keys': sorted(by_key),
    }
    if getattr(mod, 'EXHAUSTIVE', {}).get(tier):
        cov['exhaustive'] = True
        cov['exhaustive_scope'] = mod.EXHAUSTIVE[tier]
    ev = {
        'property_id': pid,
        'tier': tier,
        'seed': seed,
        'level': mod.LEVEL,
        'coverage': cov,
        'assumptions': list(getattr(mod, 'ASSUMPTIONS', [])),
        'wall_s': round(wall, 2),
        'violations': len(new),
        'verdict': {0: 'held on what was observed', 1: 'violated', 2: 'inconclusive'}[status],
        'tree': core.REPO,
    }
    evdir = os.environ.get('QSMON_EVIDENCE_DIR') or os.path.join(core.VERIF, 'evidence')
    os.makedirs(evdir, exist_ok=True)
    core.dump(os.path.join(evdir, '%s.json' % pid), ev)

    for ln in lines:
        print(ln)
    if status == 2:
        print('INCONCLUSIVE property=%s reason=%s' % (pid, '; '.join(acc.inconclusive)[:1500]))
    top = ', '.join('%s=%d' % kv for kv in sorted(acc.counters.items())[:0])
    print('%s %s seed=%d: %s; evaluations=%d distinct_nontrivial=%d shards=%d wall=%.1fs %s' % (
        pid, tier, seed, ev['verdict'], acc.evaluations, distinct, len(specs), wall, top))
    return status


def replay_main(path):
    core.ensure_deps()
    core.boot()
    with open(path) as f:
        rec = json.load(f)
    pid = rec['property']
    mod = load_prop(pid)
    acc = core.Acc()
    mod.replay(rec['case'], acc)
    known = load_known()
    open_keys, seen_known, new = classify(acc.violations, known, pid)
    for key in seen_known:
        print('KNOWN-FINDING: property=%s %s [key=%s]' % (pid, open_keys[key]['what_fails'], key))
    if new:
        print('VIOLATION property=%s replay=%s' % (pid, path))
        for v in new[:5]:
            print('  key=%s: %s' % (v['key'], v['msg'][:1000]))
            print('  witness=%s' % json.dumps(v['witness'], default=str)[:2000])
        return 1
    print('%s replay: no violation on this tree (%d monitor evaluations)' % (
        pid, sum(acc.counters.values())))
    return 0


def main(argv):
    if len(argv) >= 1 and argv[0] == '--shard':
        return shard_main(argv[1], argv[2], argv[3])
    if len(argv) >= 2 and argv[0] == '--replay':
        return replay_main(argv[1])
    if len(argv) >= 1 and argv[0].upper() in PROPS:
        tier = argv[1] if len(argv) > 1 else os.environ.get('VERIF_TIER', 'quick')
        if tier not in ('quick', 'thorough'):
            print('tier must be quick or thorough')
            return 64
        return check_main(argv[0].upper(), tier)
    print(__doc__)
    return 64


if __name__ == '__main__':
    sys.exit(main(sys.argv[1:]))
