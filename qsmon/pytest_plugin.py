"""
pytest plugin: run the repository's own tests with the always-on monitors attached (class invariants via icontract,
cash write-watch, transaction / session hooks). A monitor that fires here is either too strict or has found something
the tests do not assert. Usage: tools/repo_tests_under_monitors.sh
"""
from qsmon import core


def pytest_configure(config):
    core.ensure_deps()
    core.boot()
    from qsmon import brokerwl, sesswl
    brokerwl.install()
    sesswl.hook()
    import logging
    from qstrader import settings
    settings.set_print_events(True)      # the suite asserts on printed events
    logging.disable(logging.NOTSET)


def pytest_terminal_summary(terminalreporter):
    from qsmon import brokerwl
    terminalreporter.write_line('qsmon: contract evaluations=%d transact_asset hook hits=%d cash writes seen=%d' % (
        brokerwl.CONTRACT_EVALS['n'], brokerwl._Instr.hits['transact_asset'], brokerwl._Instr.hits['cash_write']))
