"""
Differential monitors over pairs of executions:
  C07 twin worlds (results up to day T do not depend on market data after T)
  C18 determinism (same process, warmed shared data source, other hash seeds)
"""
import datetime as dt
import hashlib
import json
import os
import random
import subprocess
import sys
import tempfile
import time

import pandas as pd

from qsmon import core, market, refmodel, sesswl
from qsmon.core import Violation


def hx(v):
    try:
        return float(v).hex()
    except Exception:
        return repr(v)


def results(tr):
    """Everything the statements compare, rendered bit-exactly (float.hex)."""
    eq = [(str(e['dt']), hx(e['value'])) for e in tr.equity]
    fills = [(str(f['dt']), f['asset'], hx(f['qty']), hx(f['price']), hx(f['commission']))
             for f in tr.fills if f.get('raised') is None]
    alloc = []
    for r in tr.pcm:
        if r['row'] is not None:
            row = r['row']
            # values by asset, then the order in which the row lists its assets (= column order of the allocation table)
            alloc.append((str(row['Date']), tuple(sorted((k, hx(v)) for k, v in row.items() if k != 'Date')),
                          [k for k in row if k != 'Date']))
    err = None
    if tr.error is not None:
        err = (tr.error[0], tr.error[1], str(tr.error[2]))
    table = []
    if tr.error is None and tr.session is not None and any(r['row'] is not None for r in tr.pcm):
        # the table a user gets from the session (forward-filled onto the equity dates)
        try:
            df = tr.session.get_target_allocations()
            cols = sorted(df.columns)
            for d, row in zip(df.index, df[cols].itertuples(index=False)):
                table.append((str(d) + ' 00:00:00', [[c, hx(v)] for c, v in zip(cols, row)]))
        except Exception as e:
            table.append(('0000-00-00 00:00:00', 'raised %s' % type(e).__name__))
    return json.loads(json.dumps({'equity': eq, 'fills': fills, 'alloc': alloc, 'table': table, 'error': err}, default=str))


def digest(res):
    return hashlib.sha256(json.dumps(res, sort_keys=True, default=str).encode()).hexdigest()


def day_of(stamp):
    return stamp[:10]


def truncate(res, T):
    """Entries dated on or before day T (ISO date string)."""
    out = {k: [x for x in res.get(k, []) if day_of(x[0]) <= T] for k in ('equity', 'fills', 'alloc', 'table')}
    err = res['error']
    out['error'] = None
    if err is not None and (err[2] == 'construction' or err[2] == 'None' or day_of(err[2]) <= T):
        out['error'] = err
    return out


def first_difference(a, b):
    for k in ('fills', 'equity', 'alloc', 'table'):
        for i, (x, y) in enumerate(zip(a.get(k, []), b.get(k, []))):
            if x != y:
                return k, i, x, y
        if len(a.get(k, [])) != len(b.get(k, [])):
            i = min(len(a.get(k, [])), len(b.get(k, [])))
            return k, i, (a[k][i] if i < len(a.get(k, [])) else None), (b[k][i] if i < len(b.get(k, [])) else None)
    if a['error'] != b['error']:
        return 'error', 0, a['error'], b['error']
    return None


# ---------------------------------------------------------------------------
# C07
# ---------------------------------------------------------------------------

REWRITES = ['reseed', 'reseed', 'scale', 'nan', 'delete', 'remove_all', 'nonpositive']


def future_reads(tr, world):
    """Reads whose requested time or whose source row lies after the simulation time at which they were made."""
    out = []
    seen = set()
    for now, req, asset, side, value in tr.reads:
        if now is None:
            continue
        now_d = str(now)[:10]
        kind = None
        src = None
        if req > now:
            kind = 'future-request'
        if value == value:
            s = world.source_of(asset, value)
            if s is not None and s[0] > now_d:
                kind = 'future-source'
                src = s
        if kind:
            key = (asset, src[0] if src else None, now_d)
            if key not in seen:
                seen.add(key)
                out.append({'kind': kind, 'now': str(now), 'requested': str(req), 'asset': asset,
                            'source_row': src[0] if src else None, 'field': src[1] if src else None})
    return out


def pre_session_cfg(cfg):
    """An earlier use of the same data source: the same strategy started a few business days later, no burn-in."""
    pre = json.loads(json.dumps(cfg))
    d0 = dt.date.fromisoformat(cfg['start'][:10])
    d1 = dt.date.fromisoformat(cfg['end'][:10])
    shift = max(3, (d1 - d0).days // 3)
    pre['start'] = (d0 + dt.timedelta(days=shift)).isoformat() + cfg['start'][10:]
    pre['burn_in'] = None
    if pre['universe']['kind'] == 'dynamic':
        pre['universe']['dates'] = {a: (pre['start'] if d == cfg['start'] else d) for a, d in pre['universe']['dates'].items()}
    return pre


def twin(cfg, rw, acc, pre=False):
    """
    Run the same configuration in world A and in world B (= A rewritten after day T); compare up to T.
    pre: in each world the data source first serves another session (started later), then the compared one.
    """
    T = rw['T']
    wa = sesswl.make_world(cfg)
    try:
        shared = None
        if pre:
            shared = {'share_handler': cfg['market']['seed'] % 2 == 0}
            sesswl.run_session(pre_session_cfg(cfg), wa, shared=shared)
        ta = sesswl.run_session(cfg, wa, shared=shared)
        ra = results(ta)
        fut = future_reads(ta, wa)
    finally:
        wa.close()
    wb = sesswl.make_world(cfg, rewrite_spec=rw)
    try:
        shared = None
        if pre:
            shared = {'share_handler': cfg['market']['seed'] % 2 == 0}
            sesswl.run_session(pre_session_cfg(cfg), wb, shared=shared)
            acc.count('C07:twins_on_a_data_source_that_served_an_earlier_session')
        tb = sesswl.run_session(cfg, wb, shared=shared)
        rb = results(tb)
    finally:
        wb.close()
    acc.count('C07:twins')
    acc.count('C07:reads_observed', len(ta.reads))
    acc.count('C07:future_reads', len(fut))
    if ra['error'] is not None or rb['error'] is not None:
        # the table is only obtainable from a run that completed; a failure after T in one world says nothing about <= T
        ra, rb = dict(ra, table=[]), dict(rb, table=[])
    A, B = truncate(ra, T), truncate(rb, T)
    acc.count('C07:compared_equity_points', len(A['equity']))
    acc.count('C07:compared_fills', len(A['fills']))
    acc.count('C07:compared_alloc_rows', len(A['alloc']))
    acc.see('C07:rewrite_kinds', rw['kind'] if not rw.get('only') else 'directed')
    if A['error'] is not None:
        acc.count('C07:runs_failing_before_T')
    d = first_difference(A, B)
    if d is not None:
        k, i, x, y = d
        wit = {'T': T, 'rewrite': rw, 'what': k, 'index': i, 'world_A': x, 'world_B': y, 'future_reads': fut[:3]}
        why = ''
        if fut:
            f = fut[0]
            why = ' At simulation time %s the session read %s for %s from the row dated %s.' % (
                f['now'], f['field'] or 'a price', f['asset'], f['source_row'] or f['requested'])
        raise Violation('C07', 'depends-on-future/%s' % k,
                        '%s #%d dated <= %s differs between two markets that are identical up to %s: %s vs %s.%s'
                        % (k, i, T, T, x, y, why), wit)
    diverged = ra != rb
    return ta, fut, diverged, A


def run_case(case, acc):
    cfg, rw = case['cfg'], case['rw']
    try:
        ta, fut, diverged, A = twin(cfg, rw, acc, pre=case.get('pre', False))
        # directed twins for reads from the future (harmless unless they change results)
        for f in fut[:3]:
            sym = f['asset'].replace('EQ:', '')
            rw2 = {'T': f['now'][:10], 'kind': 'reseed', 'seed': 1}
            if f['source_row']:
                rw2['only'] = [[sym, f['source_row']]]
            twin(cfg, rw2, acc)
            acc.count('C07:benign_future_reads')
        return diverged, A
    except Violation as v:
        acc.violation(v, case)
        return False, None


def gen_case(rng, max_days):
    cfg = sesswl.gen_cfg(rng, alpha_kinds=('fixed', 'single', 'topn_mom', 'sma_trend', 'inv_vol', 'mom_sign'),
                         universe_kinds=('static', 'dynamic'), max_days=max_days, full_data=False, nan_cells='any',
                         two_sources=0.3, stale=True)
    d0 = dt.date.fromisoformat(cfg['start'][:10])
    d1 = dt.date.fromisoformat(cfg['end'][:10])
    n = (d1 - d0).days
    T = d0 + dt.timedelta(days=rng.randint(-2, n))
    if cfg.get('burn_in') and rng.random() < 0.35:
        # a cut day inside the tracked period but before its first rebalance: nothing has been decided yet
        inst = refmodel.rebalance_instants(cfg)
        b = dt.date.fromisoformat(cfg['burn_in'][:10])
        if inst and inst[0].date() > b:
            T = b + dt.timedelta(days=rng.randint(0, (inst[0].date() - b).days - 1))
    pre = rng.random() < 0.4
    if cfg['market'].get('late') and 'market2' not in cfg:
        # an asset without bars at the start: more often run on a handler that already served a session which looked
        # past the cut day, with the cut before that asset's first bar
        pre = rng.random() < 0.75
        ld = dt.date.fromisoformat(sorted(cfg['market']['late'].values())[0])
        if rng.random() < 0.5 and ld - dt.timedelta(days=1) >= d0:
            T = ld - dt.timedelta(days=rng.randint(1, min(5, (ld - d0).days)))
    if rng.random() < 0.2:
        # a market with one-session crashes / spikes, half of which are undone the next day: the cut day is the day of such
        # a move (whether it "was real" is only known tomorrow)
        cfg['market']['jumps'] = cfg['market'].get('jumps') or {'p': 0.12, 'size': rng.choice([0.4, 0.6, 0.75])}
        spikes = []
        for sym_, rows_ in market.build_rows(cfg['market']).items():
            cl = [(r_['date'], r_['close']) for r_ in rows_ if r_['close'] is not None]
            for (da, ca), (db, cb), (dc, cc) in zip(cl, cl[1:], cl[2:]):
                if (cb > 1.5 * ca or cb < ca / 1.5) and abs(cc - ca) < 0.2 * ca and d0 <= dt.date.fromisoformat(db) <= d1:
                    spikes.append(db)
        if spikes:
            T = dt.date.fromisoformat(rng.choice(sorted(set(spikes))))
    force_kind = None
    if rng.random() < 0.12 and 'market2' not in cfg:
        # the cut day is a day on which some file has an open but no close (unadjusted prices): in the world without later
        # bars that half-filled row is the LAST row of its file
        cfg['market']['nan_p'] = cfg['market'].get('nan_p') or 0.25
        cfg['market']['adjust'] = False
        cfg['market'].pop('adj_round', None)
        halves = sorted({r_['date'] for rows_ in market.build_rows(cfg['market']).values() for r_ in rows_
                         if r_['open'] is not None and r_['close'] is None and d0 <= dt.date.fromisoformat(r_['date']) <= d1})
        if halves:
            T = dt.date.fromisoformat(rng.choice(halves))
            force_kind = rng.choice(['remove_all', 'delete'])
    kind = force_kind or rng.choice(REWRITES)
    if cfg.get('market2') and rng.random() < 0.6:
        kind = rng.choice(['remove_all', 'delete'])      # how far each vendor's files reach differs between the worlds
    return {'cfg': cfg, 'rw': {'T': T.isoformat(), 'kind': kind, 'seed': rng.randint(0, 10 ** 6)}, 'pre': pre}


def shard_c07(spec, acc):
    rng = random.Random(spec['rng'])
    t_end = time.time() + spec['budget_s']
    for i in range(spec['cases']):
        if time.time() > t_end:
            acc.count('stopped_on_time_budget')
            break
        case = gen_case(rng, 45 if spec['tier'] == 'quick' else 160)
        diverged, A = run_case(case, acc)
        acc.evaluations += 1
        cfg = case['cfg']
        acc.count('twins:alpha:%s' % cfg['alpha']['kind'])
        acc.count('twins:universe:%s' % cfg['universe']['kind'])
        if 'late' in cfg['market']:
            acc.count('twins:late_starting_asset')
        if diverged and A is not None and A['fills']:
            acc.nontriv('C07', sesswl.cfg_signature(cfg), case['rw']['kind'], case['rw']['T'])
        if diverged:
            acc.count('C07:twins_that_diverge_after_T')
        if i < 1:
            acc.sample(case)


# ---------------------------------------------------------------------------
# C18
# ---------------------------------------------------------------------------

C18_SYMS = ['XLB', 'XLC', 'QQQ', 'XLRE', 'SPY', 'AGG', 'GLD', 'IWM']


def gen_c18_cfg(rng, max_days=60):
    n = rng.randint(5, 8)
    cfg = sesswl.gen_cfg(rng, alpha_kinds=('topn_mom', 'topn_mom', 'single', 'mom_sign', 'inv_vol', 'fixed', 'fixed'),
                         universe_kinds=('dynamic',), max_days=max_days, n_assets=n, full_data=rng.random() < 0.6,
                         rebalances=('daily', 'daily', 'weekly', 'end_of_month', 'end_of_month'))
    # rename assets so that their hashes differ between interpreters in an interesting way
    syms = cfg['market']['assets']
    ren = dict(zip(syms, rng.sample(C18_SYMS, len(syms))))
    cfg = json.loads(json.dumps(cfg))
    cfg['market']['assets'] = [ren[s] for s in syms]
    cfg['market']['ratio'] = {ren[s]: v for s, v in cfg['market']['ratio'].items()}
    if 'late' in cfg['market']:
        cfg['market']['late'] = {ren[s]: v for s, v in cfg['market']['late'].items()}
    dates = {'EQ:' + ren[a[3:]]: d for a, d in cfg['universe']['dates'].items()}
    # several assets enter at the same rebalance instant
    insts = [t for t in refmodel.rebalance_instants(dict(cfg, burn_in=None))]
    assets = sorted(dates)
    rng.shuffle(assets)
    if insts:
        k = rng.randint(2, max(2, len(assets) - 2))
        same = str(rng.choice(insts[len(insts) // 4: max(len(insts) // 4 + 1, 3 * len(insts) // 4)]))
        for a in assets[:len(assets) - k]:
            dates[a] = cfg['start']
        for a in assets[len(assets) - k:]:
            dates[a] = same
    cfg['universe']['dates'] = dates
    cfg.pop('market2', None)
    if rng.random() < 0.6 and cfg['alpha']['kind'] in ('single', 'mom_sign', 'inv_vol'):
        # a second data source: same tickers priced differently for some, plus one ticker only it carries
        m2 = json.loads(json.dumps(cfg['market']))
        m2['seed'] = cfg['market']['seed'] + 31337
        m2['assets'] = rng.sample(cfg['market']['assets'], max(1, len(cfg['market']['assets']) // 2)) + ['ZZZ']
        first_asked = sorted(a for a, d in dates.items() if d == cfg['start'])
        if first_asked and first_asked[0][3:] not in m2['assets']:
            m2['assets'].insert(0, first_asked[0][3:])       # the first asset a session asks about is priced by both sources
        m2['ratio'] = {s_: 1.0 for s_ in m2['assets']}
        m2.pop('late', None); m2.pop('shift', None); m2.pop('level', None)
        cfg['market2'] = m2
        cfg['universe']['dates']['EQ:ZZZ'] = cfg['start']
    if cfg['alpha']['kind'] == 'topn_mom':
        cfg['alpha']['lookback'] = rng.choice([1, 1, 1, 2, 3])
        cfg['alpha']['top'] = rng.randint(1, len(assets) - 1)
        cfg['burn_in'] = None
        if rng.random() < 0.6:
            # rank-based model, first rebalance on the first close: every momentum is 0.0, the order of the INITIAL
            # members decides
            cfg['rebalance'] = 'daily'
            cfg.pop('weekday', None)
            n_init = sum(1 for d in dates.values() if d == cfg['start'])
            cfg['alpha']['top'] = rng.randint(1, max(1, n_init - 1))
    if cfg['alpha']['kind'] == 'fixed':
        cfg['alpha']['weights'] = {'EQ:' + ren[a[3:]]: w for a, w in cfg['alpha']['weights'].items()}
        if rng.random() < 0.6:
            # weights for the whole universe, gross exposure different from the leverage
            cfg['alpha']['weights'] = {a: round(rng.uniform(0.2, 1.5), 2) * (1 if cfg['long_only'] or rng.random() < 0.6 else -1)
                                       for a in sorted(dates)}
            cfg['universe']['dates'] = {a: cfg['start'] for a in dates}
    return cfg


def one_digest(cfg, shared=None, world=None):
    own = world is None
    if own:
        world = sesswl.make_world(cfg)
    try:
        tr = sesswl.run_session(cfg, world, shared=shared)
        res = results(tr)
        return digest(res), res, tr
    finally:
        if own:
            world.close()


def storm(rng, source, world, cfg, n=300, handler=None):
    """Fill the memoised price lookups with a shuffled pre-query storm (also through the shared handler, if any)."""
    start = pd.Timestamp(cfg['start'])
    assets = list(world.ev)
    extra_only = []
    if getattr(world, 'extra', None) is not None:
        extra_only = [a for a in world.extra.ev if a not in world.ev]
        assets = assets + extra_only
    qs = []
    for _ in range(n):
        t = start + pd.Timedelta(days=rng.randint(-40, 400), minutes=rng.choice([0, 870, 1260, rng.randint(0, 1439)]))
        if n > 1000:
            t = start + pd.Timedelta(days=rng.randint(-10, 60), seconds=rng.randint(0, 86399))     # (almost) all distinct
        qs.append((t, rng.choice(assets), rng.choice(['get_bid', 'get_ask'])))
    rng.shuffle(qs)
    for t, a, side in qs:
        try:
            getattr(source, side)(t, a)
        except Exception:
            pass
    if handler is not None:
        tail = [(start + pd.Timedelta(days=3, hours=15), a, 'get_bid') for a in extra_only]   # the last thing asked: an asset
        for t, a, side in qs[:150] + tail:                                                  # only the second source carries
            try:
                handler.get_asset_latest_bid_ask_price(t, a)
                handler.get_asset_latest_mid_price(t, a)
            except Exception:
                pass


def subprocess_digest(cfg, hashseed, scratch):
    path = os.path.join(scratch, 'cfg-%s.json' % hashseed)
    with open(path, 'w') as f:
        json.dump(cfg, f)
    env = dict(os.environ)
    env['PYTHONHASHSEED'] = str(hashseed)
    env['PYTHONDONTWRITEBYTECODE'] = '1'
    p = subprocess.run([sys.executable, '-m', 'qsmon.pairwl', '--digest', path], cwd=core.VERIF, env=env,
                       stdout=subprocess.PIPE, stderr=subprocess.PIPE, timeout=300)
    if p.returncode != 0:
        raise RuntimeError('digest subprocess failed: %s' % p.stderr.decode()[-800:])
    return json.loads(p.stdout.decode().strip().splitlines()[-1])


def run_c18_case(case, acc):
    cfg = case['cfg']
    rng = random.Random(case.get('seed', 0))
    try:
        # (d) first an unrelated session on a DIFFERENT market with the same tickers and dates, from separate objects:
        # whatever it leaves behind in this process must not reach the runs below (they are compared with fresh
        # interpreters that never saw it)
        other = json.loads(json.dumps(cfg))
        other['market']['seed'] = cfg['market']['seed'] + 7919
        other['market']['adjust'] = not cfg['market']['adjust']
        other['market']['ratio'] = {k: 0.5 for k in cfg['market']['ratio']}
        if case.get('seed', 0) % 2 == 0:
            # ... over the same period on ANOTHER rebalance schedule
            other['rebalance'] = {'daily': 'end_of_month', 'end_of_month': 'daily', 'weekly': 'daily'}.get(cfg['rebalance'], 'daily')
            other.pop('weekday', None)
        one_digest(other)
        d1, r1, tr1 = one_digest(cfg)
        acc.count('C18:runs', 2)
        acc.count('C18:fills_in_reference_run', len(r1['fills']))
        # (a) same process, fresh objects
        d2, r2, _ = one_digest(cfg)
        acc.count('C18:runs')
        if d1 != d2:
            k, i, x, y = first_difference(r1, r2)
            raise Violation('C18', 'same-process/%s' % k, 'two runs in one process differ at %s #%d: %s vs %s' % (k, i, x, y),
                            {'mode': 'same-process'})
        acc.count('C18:same_process_pairs')
        # (b) data source that already served another session and a storm of shuffled queries
        world = sesswl.make_world(cfg)
        try:
            shared = {'share_handler': rng.random() < 0.7 or bool(cfg.get('market2'))}
            other = json.loads(json.dumps(cfg))
            other['rebalance'] = 'daily' if cfg['rebalance'] != 'daily' else 'weekly'
            other.setdefault('weekday', 'WED')
            other['burn_in'] = None
            if rng.random() < 0.5:
                # the earlier session tracks every symbol from an earlier start (also before a late asset's first bar)
                d0 = dt.date.fromisoformat(cfg['start'][:10]) - dt.timedelta(days=9)
                other['start'] = d0.isoformat() + cfg['start'][10:]
                other['universe'] = {'kind': 'static', 'assets': ['EQ:' + s_ for s_ in cfg['market']['assets']]}
                other['alpha'] = {'kind': 'sma_trend', 'fast': 2, 'slow': 4}
            sesswl.run_session(other, world, shared=shared)
            storm(rng, shared['source'], world, cfg, n=case.get('big_storm', 300), handler=shared.get('handler'))
            if case.get('big_storm'):
                acc.count('C18:runs_after_a_storm_of_40000_lookups')
            d3, r3, _ = one_digest(cfg, shared=shared, world=world)
            acc.count('C18:runs', 2)
            info = getattr(shared['source'].get_bid, 'cache_info', None)
            if d1 != d3:
                k, i, x, y = first_difference(r1, r3)
                raise Violation('C18', 'warmed-data-source/%s' % k,
                                'a run on a data source that served an earlier session differs at %s #%d: %s vs %s'
                                % (k, i, x, y), {'mode': 'warmed-data-source'})
            acc.count('C18:warmed_source_pairs')
        finally:
            world.close()
        # (e) the same universe object serves a first session and then this one (everything else rebuilt)
        world = sesswl.make_world(cfg)
        try:
            shared = {'share_universe': True}
            first = json.loads(json.dumps(cfg))
            first['burn_in'] = None
            sesswl.run_session(first, world, shared=shared)
            shared.pop('source', None)
            d5, r5, _ = one_digest(cfg, shared=shared, world=world)
            acc.count('C18:runs', 2)
            if d1 != d5:
                k, i, x, y = first_difference(r1, r5)
                raise Violation('C18', 'reused-universe-object/%s' % k,
                                'a run whose universe object already served an earlier session differs at %s #%d: %s vs %s'
                                % (k, i, x, y), {'mode': 'reused-universe-object'})
            acc.count('C18:reused_universe_pairs')
        finally:
            world.close()
        # (e2) a STATIC universe object first serves a session that comes to hold an asset outside it (fixed weights naming
        # a non-member), then a session whose membership-driven alpha model reads the same object
        syms_ = ['EQ:' + s_ for s_ in cfg['market']['assets']]
        if len(syms_) >= 3 and case.get('seed', 0) % 2 == 0 and 'late' not in cfg['market']:
            members, outsider = syms_[:-1], syms_[-1]
            cfg_s = json.loads(json.dumps(cfg))
            cfg_s.pop('market2', None)
            cfg_s['universe'] = {'kind': 'static', 'assets': members}
            cfg_s['alpha'] = {'kind': 'single', 'signal': 1.0}
            cfg_s['long_only'] = True
            cfg_s.setdefault('buffer', 0.05)
            cfg_s.pop('leverage', None)
            cfg_s['burn_in'] = None
            ds_, rs_, _ = one_digest(cfg_s)
            world = sesswl.make_world(cfg_s)
            try:
                shared = {'share_universe': True}
                first = json.loads(json.dumps(cfg_s))
                first['alpha'] = {'kind': 'fixed', 'weights': {members[0]: 0.5, outsider: 0.5}}
                sesswl.run_session(first, world, shared=shared)
                shared.pop('source', None)
                d8, r8, _ = one_digest(cfg_s, shared=shared, world=world)
                acc.count('C18:runs', 3)
                if ds_ != d8:
                    k, i, x, y = first_difference(rs_, r8)
                    raise Violation('C18', 'reused-static-universe-object/%s' % k, 'a run whose StaticUniverse object already served a session '
                                    'that held a non-member differs at %s #%d: %s vs %s' % (k, i, x, y), {'mode': 'reused-static-universe'})
                acc.count('C18:reused_static_universe_pairs')
            finally:
                world.close()
        # (f) the same alpha model object - and with it the caller's weights dict - serves a first run and then this one
        if cfg['alpha']['kind'] == 'fixed':
            world = sesswl.make_world(cfg)
            try:
                shared = {'share_alpha': True}
                sesswl.run_session(cfg, world, shared=shared)
                shared.pop('source', None)
                d6, r6, _ = one_digest(cfg, shared=shared, world=world)
                acc.count('C18:runs', 2)
                if d1 != d6:
                    k, i, x, y = first_difference(r1, r6)
                    raise Violation('C18', 'reused-alpha-model/%s' % k,
                                    'a run whose alpha model object already served an earlier run differs at %s #%d: %s vs %s'
                                    % (k, i, x, y), {'mode': 'reused-alpha-model'})
                acc.count('C18:reused_alpha_model_pairs')
            finally:
                world.close()
        # (g) a session over the same period and schedule but with another (later) burn-in ran first, from its own objects
        insts = refmodel.rebalance_instants(dict(cfg, burn_in=None))
        if len(insts) >= 2:
            later = insts[len(insts) // 2] + dt.timedelta(hours=rng.choice([0, 1, 3]))
            prior = json.loads(json.dumps(cfg))
            prior['burn_in'] = str(later)
            one_digest(prior)
            d7, r7, _ = one_digest(cfg)
            acc.count('C18:runs', 2)
            if d7 != d1:
                k, i, x, y = first_difference(r1, r7)
                raise Violation('C18', 'after-session-with-other-burn-in/%s' % k, 'a run made after a session over the same period with a '
                                'later burn-in (own objects) differs at %s #%d: %s vs %s' % (k, i, x, y), {'mode': 'other-burn-in-first'})
            acc.count('C18:runs_after_a_session_with_another_burn_in')
        # (h) no data handler and no QSTRADER_CSV_DATA_DIR: prices come from the current directory (documented fallback);
        # first from another market's directory, then from this market's - compared with the reference run
        if case.get('cwd_mode', True):
            cfgh = json.loads(json.dumps(cfg))
            cfgh.pop('market2', None)
            cfgh['market']['adjust'] = True
            if cfgh['alpha']['kind'] not in ('fixed', 'single'):
                cfgh['alpha'] = {'kind': 'single', 'signal': 1.0}
                cfgh['long_only'] = True
                cfgh.setdefault('buffer', 0.05)
                cfgh.pop('leverage', None)
            d1h, r1h, _ = one_digest(cfgh)            # reference: explicit data handler on the same files
            other = json.loads(json.dumps(cfgh))
            other['market']['seed'] = cfg['market']['seed'] + 4242
            keep_env, keep_cwd = os.environ.pop('QSTRADER_CSV_DATA_DIR', None), os.getcwd()
            try:
                for c_ in (other, cfgh):
                    w_ = sesswl.make_world(c_)
                    try:
                        os.chdir(w_.dir)
                        tr_ = sesswl.run_session(dict(c_, default_handler='cwd'), w_)
                        res_ = results(tr_)
                    finally:
                        os.chdir(keep_cwd)
                        w_.close()
                acc.count('C18:runs', 2)
                if digest(res_) != d1h:
                    k, i, x, y = first_difference(r1h, res_)
                    raise Violation('C18', 'cwd-fallback-after-another-directory/%s' % k, 'a session that reads its prices from the '
                                    'current directory, run after one started from another directory, differs at %s #%d: %s vs %s'
                                    % (k, i, x, y), {'mode': 'cwd-fallback'})
                acc.count('C18:cwd_fallback_pairs')
            finally:
                if keep_env is not None:
                    os.environ['QSTRADER_CSV_DATA_DIR'] = keep_env
                os.environ.pop('QSTRADER_CSV_DATA_DIR', None) if keep_env is None else None
        # (c) fresh interpreters with other string-hash seeds
        scratch = tempfile.mkdtemp(prefix='qsmon-c18-')
        try:
            digs = {}
            own = os.environ.get('PYTHONHASHSEED', '0')
            out = subprocess_digest(cfg, own, scratch)
            acc.count('C18:fresh_interpreter_runs')
            if out['digest'] != d1:
                k, i, x, y = first_difference(r1, out['results'])
                raise Violation('C18', 'after-unrelated-session/%s' % k,
                                'this process (which ran an unrelated session on another market with the same tickers '
                                'before) differs from a fresh interpreter with the SAME hash seed at %s #%d: %s vs %s'
                                % (k, i, x, y), {'mode': 'after-unrelated-session'})
            acc.count('C18:after_unrelated_session_pairs')
            for hs in case['hashseeds']:
                out = subprocess_digest(cfg, hs, scratch)
                digs[hs] = out
                acc.count('C18:fresh_interpreter_runs')
                acc.see('C18:hash_seeds', hs)
            for hs, out in digs.items():
                if out['digest'] != d1:
                    k, i, x, y = first_difference(r1, out['results'])
                    others = sorted({o['digest'][:8] for o in digs.values()} | {d1[:8]})
                    raise Violation('C18', 'hash-seed/%s' % k,
                                    'a fresh interpreter with PYTHONHASHSEED=%s differs from this one at %s #%d: %s vs %s '
                                    '(%d distinct digests over %d interpreters)'
                                    % (hs, k, i, x, y, len(others), len(digs) + 1), {'mode': 'hash-seed', 'seed': hs})
        finally:
            import shutil
            shutil.rmtree(scratch, ignore_errors=True)
        return r1, tr1
    except Violation as v:
        acc.violation(v, case)
        return None, None


def broker_script(rng):
    """A hand-driven backtest: subscriptions, orders with library-generated identifiers (several per asset and side in one
    queue, queued while the exchange is closed) and clock updates."""
    assets = ['EQ:AAA', 'EQ:BBB', 'EQ:CCC'][:rng.randint(1, 3)]
    ports = ['p1', 'p2'][:rng.randint(1, 2)]
    ops = [('create', p) for p in ports] + [('fund', p, float(rng.choice([1e6, 5e6]))) for p in ports]
    t = pd.Timestamp('2022-03-07 09:00:00', tz='UTC')
    for day in range(rng.randint(2, 5)):
        ops.append(('update', str(t), {a: round(10 ** rng.uniform(0.5, 2.5), rng.choice([2, 4])) for a in assets}))
        for _ in range(rng.randint(2, 7)):
            ops.append(('order', rng.choice(ports), rng.choice(assets), rng.choice([1, 1, -1]) * rng.randint(1, 900)))
        t2 = t + pd.Timedelta(hours=6)
        ops.append(('update', str(t2), {a: round(10 ** rng.uniform(0.5, 2.5), rng.choice([2, 4])) for a in assets}))
        t = t + pd.Timedelta(days=1)
    return ops


def run_broker_script(ops):
    from qstrader.broker.simulated_broker import SimulatedBroker
    from qstrader.exchange.simulated_exchange import SimulatedExchange
    from qstrader.broker.fee_model.percent_fee_model import PercentFeeModel
    from qstrader.execution.order import Order
    from qsmon import brokerwl as bw
    book = bw.QuoteBook()
    t0 = pd.Timestamp('2022-03-07 08:00:00', tz='UTC')
    broker = SimulatedBroker(t0, SimulatedExchange(t0), book, initial_funds=2e7,
                             fee_model=PercentFeeModel(commission_pct=0.001, tax_pct=0.0))
    for op in ops:
        if op[0] == 'create':
            broker.create_portfolio(op[1])
        elif op[0] == 'fund':
            broker.subscribe_funds_to_portfolio(op[1], op[2])
        elif op[0] == 'order':
            broker.submit_order(op[1], Order(broker.current_dt, op[2], op[3]))
        else:
            t = pd.Timestamp(op[1])
            book.now = t
            for a, p in op[2].items():
                book.set(a, p, p + 0.01)
            broker.update(t)
    out = {}
    for pid, p in sorted(broker.portfolios.items()):
        out[pid] = {'cash': float(p.cash).hex(), 'equity': float(p.total_equity).hex(),
                    'history': [[str(e.dt), e.type, e.description.split(' ', 1)[0], float(e.debit).hex(), float(e.credit).hex(),
                                 float(e.balance).hex()] for e in p.history],
                    'holdings': {a: [d['quantity'], float(d['market_value']).hex()] for a, d in sorted(p.portfolio_to_dict().items())}}
    return out


def broker_level_case(rng, acc):
    ops = broker_script(rng)
    a = run_broker_script(ops)
    for rep in range(3):
        b = run_broker_script(ops)
        acc.count('C18:hand_driven_runs')
        if a != b:
            pid = next(p for p in a if a[p] != b[p])
            ha, hb = a[pid]['history'], b[pid]['history']
            i = next((k for k in range(min(len(ha), len(hb))) if ha[k] != hb[k]), min(len(ha), len(hb)))
            raise Violation('C18', 'hand-driven/history', 'the same sequence of subscriptions, orders and clock updates run twice in '
                            'one process gives different accounts for %s: history entry #%d %s vs %s'
                            % (pid, i, ha[i:i + 1], hb[i:i + 1]), {'mode': 'hand-driven'})
    acc.count('C18:hand_driven_scripts')


def aborting_run_script(rng):
    """A run that lists an asset without a price yet at its first rebalance (the documented ValueError ends it), run again
    after another run of the same process that listed that asset with weight 0.0."""
    return {'tag': '%04d' % rng.randint(0, 9999), 'long_only': rng.random() < 0.6, 'late_days': rng.choice([6, 9, 14]),
            'start_after_listing': rng.random() < 0.25, 'weight': rng.choice([0.5, 0.3, 1.0]), 'loud': rng.random() < 0.5,
            'rebalance': rng.choice(['weekly', 'daily', 'end_of_month']),
            # ... or: a moving-average model over both assets, trading only from a burn-in date after the listing (the
            # averages still look back before it); the run in between used the same data handler for a later period
            'signals': rng.random() < 0.4, 'lookback': rng.choice([8, 12])}


def aborting_run_case(sp, acc):
    import shutil
    from qsmon import datawl
    from qstrader.asset.equity import Equity
    from qstrader.asset.universe.static import StaticUniverse
    from qstrader.alpha_model.fixed_signals import FixedSignalsAlphaModel
    from qstrader.data.backtest_data_handler import BacktestDataHandler
    from qstrader.data.daily_bar_csv import CSVDailyBarDataSource
    from qstrader.trading.backtest import BacktestTradingSession
    d = tempfile.mkdtemp(prefix='qsmon-c18-')
    old, late = 'OLD' + sp['tag'], 'NEW' + sp['tag']
    try:
        days = [dd for dd in (dt.date(2021, 3, 1) + dt.timedelta(days=k) for k in range(70)) if dd.weekday() < 5]
        bars = lambda base, ds_: [{'date': x.isoformat(), 'open': base + 0.25 * i, 'close': base + 0.25 * i + 0.1, 'adj': base + 0.25 * i + 0.1}  # noqa
                                  for i, x in enumerate(ds_)]
        datawl.write_csv(os.path.join(d, old + '.csv'), bars(50.0, days), list(range(len(days))))
        datawl.write_csv(os.path.join(d, late + '.csv'), bars(20.0, days[sp['late_days']:]), list(range(len(days) - sp['late_days'])))
        start = pd.Timestamp(days[sp['late_days'] + 2 if sp['start_after_listing'] else 0].isoformat() + ' 14:30:00', tz='UTC')
        end = pd.Timestamp(days[-1].isoformat() + ' 23:59:00', tz='UTC')

        class AboveAverage(object):
            def __init__(self, signals, uni_):
                self.signals, self.uni = signals, uni_

            def __call__(self, t_):
                w_ = {}
                for a_ in self.uni.get_assets(t_):
                    m_ = self.signals['sma'](a_, sp['lookback'])
                    w_[a_] = 0.5 if m_ == m_ and m_ > 30.0 else (0.25 if m_ == m_ else 0.0)
                return w_
        shared_handler = []

        def outcome(w_late, begin=None, share=False):
            uni = StaticUniverse(['EQ:' + old, 'EQ:' + late])
            if share and shared_handler:
                handler = shared_handler[0]
            else:
                handler = BacktestDataHandler(uni, data_sources=[CSVDailyBarDataSource(d, Equity, adjust_prices=False)])
                if share:
                    shared_handler.append(handler)
            kw = {'cash_buffer_percentage': 0.05} if sp['long_only'] else {'gross_leverage': 1.0}
            if sp['rebalance'] == 'weekly':
                kw['rebalance_weekday'] = 'WED'
            begin = begin or start
            alpha = FixedSignalsAlphaModel({'EQ:' + old: 1.0 - sp['weight'], 'EQ:' + late: w_late})
            if sp.get('signals'):
                from qstrader.signals.sma import SMASignal
                from qstrader.signals.signals_collection import SignalsCollection
                sigs = SignalsCollection({'sma': SMASignal(begin, uni, lookbacks=[sp['lookback']])}, handler)
                alpha = AboveAverage(sigs, uni)
                kw['signals'] = sigs
                kw['burn_in_dt'] = pd.Timestamp(days[sp['late_days'] + 3].isoformat() + ' 14:30:00', tz='UTC') if begin == start \
                    else begin + pd.Timedelta(days=5)
            sess = BacktestTradingSession(begin, end, uni, alpha,
                                          rebalance=sp['rebalance'], long_only=sp['long_only'], data_handler=handler, **kw)
            try:
                with core.loud(sp['loud']):
                    sess.run(results=False)
            except Exception as e:
                if not core.from_repo(e):
                    raise
                return ['raised', type(e).__name__, len(sess.equity_curve)]
            return ['completed', [float(v).hex() for _, v in sess.equity_curve]]
        first = outcome(sp['weight'])
        if sp.get('signals'):
            # somebody else's run over a later period, on the data handler the repeated run then uses too
            outcome(sp['weight'], begin=pd.Timestamp(days[sp['late_days'] + 12].isoformat() + ' 14:30:00', tz='UTC'), share=True)
            again = outcome(sp['weight'], share=True)
            acc.count('C18:runs_on_a_data_handler_that_served_a_later_period')
        else:
            outcome(0.0)                      # somebody else's run: the same listing, the new asset at weight 0.0
            again = outcome(sp['weight'])
        acc.count('C18:runs', 3)
        acc.count('C18:runs_that_end_with_the_documented_error' if first[0] == 'raised' else 'C18:runs_of_the_abort_script_that_complete')
        if first != again:
            raise Violation('C18', 'repeat-after-another-run/%s' % first[0], 'a %s run listing an asset whose first bar comes %d '
                            'business days after the data begin (start %s) ended as %s; after another run of the same process '
                            '(same listing, that asset at weight 0.0) the very same run ended as %s'
                            % ('long-only' if sp['long_only'] else 'long/short', sp['late_days'], start, str(first)[:160], str(again)[:160]), sp)
    finally:
        shutil.rmtree(d, ignore_errors=True)


def shard_c18(spec, acc):
    rng = random.Random(spec['rng'])
    t_end = time.time() + spec['budget_s']
    for i in range(spec['cases']):
        if time.time() > t_end:
            acc.count('stopped_on_time_budget')
            break
        for _ in range(6):
            r3 = random.Random(rng.randint(0, 2 ** 31))
            seed3 = r3.getstate()
            try:
                broker_level_case(r3, acc)
            except Violation as v:
                r4 = random.Random()
                r4.setstate(seed3)
                acc.violation(v, {'hand_driven': broker_script(r4)})
        sp_ = aborting_run_script(random.Random(rng.randint(0, 2 ** 31)))
        try:
            aborting_run_case(sp_, acc)
        except Violation as v:
            acc.violation(v, {'aborting_run': sp_})
        cfg = gen_c18_cfg(rng, 45 if spec['tier'] == 'quick' else 120)
        case = {'cfg': cfg, 'hashseeds': spec['hashseeds'], 'seed': rng.randint(0, 10 ** 6)}
        if i % 12 == 1:
            case['big_storm'] = 40000        # more distinct lookups than a bounded price memo is likely to hold
        r1, tr1 = run_c18_case(case, acc)
        acc.evaluations += 1
        acc.count('cases:alpha:%s' % cfg['alpha']['kind'])
        if r1 is not None and len(r1['fills']) >= 2:
            acc.nontriv('C18', sesswl.cfg_signature(cfg), tuple(sorted(cfg['universe']['dates'].items(), key=str)))
        if i < 1:
            acc.sample(case)


def main(argv):
    if len(argv) == 2 and argv[0] == '--digest':
        core.ensure_deps()
        core.boot()
        with open(argv[1]) as f:
            cfg = json.load(f)
        d, res, _ = one_digest(cfg)
        print(json.dumps({'digest': d, 'results': res}))
        return 0
    return 64


if __name__ == '__main__':
    sys.exit(main(sys.argv[1:]))
