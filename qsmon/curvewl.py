"""
W-CURVE: positive equity curves for the statistics package (C17).
Oracles from math / fractions / statistics only.
"""
import datetime as dt
import json
import math
import os
import random
import shutil
import tempfile
import time
from fractions import Fraction

import numpy as np
import pandas as pd

from qsmon import core
from qsmon.core import Violation

PERIODS = 252


# ---------------------------------------------------------------------------
# curve generation
# ---------------------------------------------------------------------------

def business_dates(start, n):
    out, d = [], start
    while len(out) < n:
        if d.weekday() <= 4:
            out.append(d)
        d += dt.timedelta(days=1)
    return out


def gen_curve(rng):
    kind = rng.choice(['walk', 'walk', 'walk', 'up', 'down', 'peak_first', 'flat', 'vshape', 'steps', 'late_peak'])
    n = rng.choice([2, 3, 5, 10, 22, 60, 130, 260, 520, 800]) if rng.random() < 0.7 else rng.randint(2, 800)
    x0 = 10 ** rng.uniform(2, 7)
    vol = rng.choice([0.001, 0.01, 0.03])
    xs = [x0]
    if kind == 'walk':
        drift = rng.choice([-0.002, 0.0, 0.0005, 0.002])
        for _ in range(n - 1):
            xs.append(xs[-1] * max(0.05, 1 + rng.gauss(drift, vol)))
    elif kind == 'up':
        for _ in range(n - 1):
            xs.append(xs[-1] * (1 + abs(rng.gauss(0, vol)) + 1e-6))
    elif kind == 'down':
        for _ in range(n - 1):
            xs.append(xs[-1] * (1 - min(0.5, abs(rng.gauss(0, vol)) + 1e-6)))
    elif kind == 'peak_first':
        xs.append(xs[-1] * 0.9)
        for _ in range(n - 2):
            xs.append(min(x0 * 0.999, xs[-1] * max(0.05, 1 + rng.gauss(0, vol))))
    elif kind == 'flat':
        for _ in range(n - 1):
            xs.append(xs[-1] if rng.random() < 0.8 else xs[-1] * max(0.05, 1 + rng.gauss(0, vol)))
    elif kind == 'vshape':
        down = [x0 * (1 - 0.01 * i) for i in range(1, max(2, n // 2))]
        xs = [x0] + down + down[::-1][1:] + [x0]
        while len(xs) < n:
            xs.append(xs[-1] * (1 + abs(rng.gauss(0, vol))))
        xs = xs[:max(2, n)]
    elif kind == 'steps':
        levels = [x0 * m for m in (1.0, 0.8, 1.0, 1.2, 0.9, 1.2, 1.3)]
        for i in range(n - 1):
            xs.append(levels[(i * len(levels)) // max(1, n - 1)])
    elif kind == 'late_peak':
        for _ in range(n - 1):
            xs.append(xs[-1] * max(0.05, 1 + rng.gauss(-0.001, vol)))
        xs[-1] = max(xs) * 1.05
    # keep the curve in a sane range: daily moves within -50%..+100%, level within x0/1000..x0*1000, so that
    # 1+r never cancels catastrophically (an equity curve that loses 99.9999% in a day is not what the
    # statistics are defined for, and every float formula is ill-conditioned there)
    ys = [xs[0]]
    for x in xs[1:]:
        x = min(max(x, ys[-1] * 0.5), ys[-1] * 2.0)
        x = min(max(x, x0 / 1000.0), x0 * 1000.0)
        ys.append(x)
    nd = rng.choice([2, 2, 6, None, 0])
    xs = [float(round(x, nd)) if nd is not None else float(x) for x in ys]
    if nd == 0:
        xs = [max(1, int(x)) for x in xs]        # a whole-dollar curve: the Equity column is int64
    start = dt.date(1995, 1, 2) + dt.timedelta(days=rng.randint(0, 11000))
    return {'kind': kind, 'start': start.isoformat(), 'equity': xs,
            'index': rng.choice(['date', 'date', 'timestamp'])}


def make_index(case, n):
    ds = business_dates(dt.date.fromisoformat(case['start']), n)
    if case['index'] == 'date':
        return ds, ds
    return ds, pd.DatetimeIndex([pd.Timestamp(d) for d in ds])


# ---------------------------------------------------------------------------
# definitions
# ---------------------------------------------------------------------------

def d_returns(xs):
    return [0.0] + [xs[i] / xs[i - 1] - 1.0 for i in range(1, len(xs))]


def prod1p(rs):
    p = Fraction(1)
    for r in rs:
        p *= 1 + Fraction(float(r))
    return p


def d_drawdowns(cum):
    out, m = [], None
    for x in cum:
        m = x if m is None or x > m else m
        out.append((m - x) / m)
    return out


def d_duration(dd):
    best = run = 0
    for v in dd:
        run = run + 1 if v != 0 else 0
        best = max(best, run)
    return best


def pstdev(vals):
    n = len(vals)
    if n == 0:
        return float('nan')
    mu = math.fsum(vals) / n
    return math.sqrt(math.fsum((v - mu) ** 2 for v in vals) / n)


def d_ratio(num, den):
    if den != den or num != num:
        return float('nan')
    if den == 0:
        if num == 0:
            return float('nan')
        return math.copysign(float('inf'), num)
    return num / den


def d_sharpe(rs, periods=PERIODS):
    mu = math.fsum(rs) / len(rs)
    return d_ratio(math.sqrt(periods) * mu, pstdev(rs))


def d_sortino(rs, periods=PERIODS):
    mu = math.fsum(rs) / len(rs)
    return d_ratio(math.sqrt(periods) * mu, pstdev([r for r in rs if r < 0]))


def d_cagr(cum, periods=PERIODS):
    years = len(cum) / float(periods)
    return math.exp(math.log(cum[-1]) / years) - 1.0


def same(a, b, rel=1e-9, scale=1.0):
    a, b = float(a), float(b)
    if a != a or b != b:
        return a != a and b != b
    if math.isinf(a) or math.isinf(b):
        return a == b
    return abs(a - b) <= rel * (abs(b) + scale)


def ill_conditioned(rs, neg_only=False):
    vals = [r for r in rs if r < 0] if neg_only else list(rs)
    if len(vals) < 2:
        return False
    sd = pstdev(vals)
    big = max(abs(v) for v in vals)
    return sd != 0 and sd < 1e-6 * big


# ---------------------------------------------------------------------------
# the monitor
# ---------------------------------------------------------------------------

def V(key, msg, **w):
    raise Violation('C17', key, msg, w)


def check_perf(case, acc):
    import qstrader.statistics.performance as perf
    xs = case['equity']
    n = len(xs)
    ds, idx = make_index(case, n)
    eq = pd.Series(xs, index=idx)
    rets = eq.pct_change().fillna(0.0)
    cum = np.exp(np.log(1 + rets).cumsum())
    rlist = [float(r) for r in rets]
    clist = [float(c) for c in cum]

    # compounding of the period aggregates
    total = prod1p(rlist)
    for conv in ('weekly', 'monthly', 'yearly'):
        agg = perf.aggregate_returns(rets, conv)
        if agg is None:
            V('aggregate-none/%s' % conv, 'aggregate_returns(%s) returned None' % conv)
        got = prod1p(list(agg))
        if not core.close(float(got), total, total):
            V('aggregate-compounding/%s' % conv, '%s aggregates compound to %r, daily returns to %r (%d groups, %d days)'
              % (conv, float(got), float(total), len(agg), n))
        groups = {}
        for d, r in zip(ds, rlist):
            k = {'weekly': (d.year, d.month, d.isocalendar()[1]), 'monthly': (d.year, d.month), 'yearly': (d.year,)}[conv]
            groups.setdefault(k, []).append(r)
        if len(groups) != len(agg):
            V('aggregate-groups/%s' % conv, '%s aggregation has %d periods, calendar has %d' % (conv, len(agg), len(groups)))
        for k, g in zip(sorted(groups), list(agg)):
            want = prod1p(groups[k]) - 1
            if not core.close(g, want, abs(want) + 1):
                V('aggregate-value/%s' % conv, '%s period %s returns %r, compounding its days gives %r' % (conv, k, g, float(want)))
        acc.count('C17:aggregate_checks')

    # drawdowns on the series the function receives
    dd_s, max_dd, dur = perf.create_drawdowns(cum)
    want_dd = d_drawdowns(clist)
    got_dd = [float(v) for v in dd_s]
    for i, (g, w) in enumerate(zip(got_dd, want_dd)):
        if not same(g, w, 1e-9, 1e-12):
            V('drawdown-series' + ('/first-point-peak' if clist[0] >= max(clist[:i + 1]) else ''),
              'drawdown at point %d is %r, 1 - value/running maximum = %r (value %r, running max %r, first value %r)'
              % (i, g, w, clist[i], max(clist[:i + 1]), clist[0]), index=i)
    if not same(max_dd, max(want_dd), 1e-9, 1e-12):
        V('max-drawdown', 'max drawdown %r, expected %r' % (max_dd, max(want_dd)))
    if int(dur) != d_duration(want_dd):
        V('drawdown-duration', 'drawdown duration %r, longest under-water run is %d' % (dur, d_duration(want_dd)))
    acc.count('C17:drawdown_checks')
    # the same public function on the raw equity values (a series that does not start at 1.0): "1 - value / running
    # maximum, the running maximum including the first observation" holds for any positive series
    raw = pd.Series([float(v) for v in xs], index=cum.index)
    dd_r, max_r, dur_r = perf.create_drawdowns(raw)
    want_r = d_drawdowns([float(v) for v in xs])
    for i, (g, w) in enumerate(zip([float(v) for v in dd_r], want_r)):
        if not same(g, w, 1e-9, 1e-12):
            V('drawdown-series/raw-equity', 'drawdown of the raw equity series at point %d is %r, 1 - value/running maximum = %r (first '
              'value %r)' % (i, g, w, xs[0]), index=i)
    if not same(max_r, max(want_r), 1e-9, 1e-12):
        V('max-drawdown/raw-equity', 'max drawdown of the raw equity series %r, expected %r' % (max_r, max(want_r)))
    acc.count('C17:drawdown_checks_on_raw_equity')

    # CAGR / Sharpe / Sortino
    got = perf.create_cagr(cum, PERIODS)
    if not same(got, d_cagr(clist), 1e-9, 1e-9):
        V('cagr', 'CAGR %r, final cumulative return ^ (periods/observations) - 1 = %r (n=%d)' % (got, d_cagr(clist), n))
    with np.errstate(all='ignore'):
        got = perf.create_sharpe_ratio(rets, PERIODS)
        if ill_conditioned(rlist):
            acc.count('C17:ill_conditioned_skipped')
        elif not same(got, d_sharpe(rlist), 1e-7):
            V('sharpe', 'Sharpe %r, sqrt(252) x mean / population stdev = %r (n=%d)' % (got, d_sharpe(rlist), n))
        got = perf.create_sortino_ratio(rets, PERIODS)
        if ill_conditioned(rlist, True):
            acc.count('C17:ill_conditioned_skipped')
        elif not same(got, d_sortino(rlist), 1e-7):
            V('sortino', 'Sortino %r, sqrt(252) x mean / population stdev of negative returns = %r (n=%d, %d negative)'
              % (got, d_sortino(rlist), n, sum(1 for r in rlist if r < 0)))
    acc.count('C17:ratio_checks')
    return want_dd


def stats_of(xs, idx):
    """(max_dd, duration, cagr, sharpe, sortino, dd list) through the real functions."""
    import qstrader.statistics.performance as perf
    eq = pd.Series(xs, index=idx)
    rets = eq.pct_change().fillna(0.0)
    cum = np.exp(np.log(1 + rets).cumsum())
    with np.errstate(all='ignore'):
        dd_s, max_dd, dur = perf.create_drawdowns(cum)
        return (float(max_dd), int(dur), float(perf.create_cagr(cum, PERIODS)),
                float(perf.create_sharpe_ratio(rets, PERIODS)), float(perf.create_sortino_ratio(rets, PERIODS)),
                [float(v) for v in dd_s])


def check_scale(case, acc, rng):
    xs = case['equity']
    ds, idx = make_index(case, len(xs))
    base = stats_of(xs, idx)
    k = rng.choice([-7, -1, 1, 3, 10])
    sc = stats_of([x * 2.0 ** k for x in xs], idx)
    names = ('max_drawdown', 'duration', 'cagr', 'sharpe', 'sortino')
    for nm, a, b in zip(names, base, sc):
        if not (a == b or (a != a and b != b)):
            V('scale-2k/%s' % nm, '%s changes from %r to %r when equity is multiplied by 2^%d' % (nm, a, b, k))
    if [float(v).hex() for v in base[5]] != [float(v).hex() for v in sc[5]]:
        V('scale-2k/drawdowns', 'drawdown series changes when equity is multiplied by 2^%d' % k)
    c = rng.uniform(1e-3, 1e3)
    sc = stats_of([x * c for x in xs], idx)
    rl = d_returns(xs)
    for i, (nm, a, b) in enumerate(zip(names, base, sc)):
        if nm == 'duration':
            near, m = False, xs[0]
            for x in xs[1:]:
                if abs(x - m) <= 1e-9 * m:
                    near = True      # a value ties (or nearly ties) with the running peak: float noise may flip it
                    break
                m = max(m, x)
            if near:
                acc.count('C17:scale_duration_skipped_near_tie')
            elif a != b:
                V('scale-c/duration', 'duration changes from %r to %r when equity is multiplied by %r' % (a, b, c))
            continue
        if not (math.isfinite(a) and math.isfinite(b)):
            acc.count('C17:scale_nonfinite_skipped')
            continue
        if nm in ('sharpe', 'sortino') and ill_conditioned(rl, nm == 'sortino'):
            continue
        if not same(a, b, 1e-7, 1e-2):
            V('scale-c/%s' % nm, '%s changes from %r to %r when equity is multiplied by %r' % (nm, a, b, c))
    acc.count('C17:scale_checks')


def eqv(a, b):
    if isinstance(a, float) and isinstance(b, float):
        return a == b or (a != a and b != b)
    return a == b


def check_reporters(case, acc, tmpdir):
    from qstrader.statistics.json_statistics import JSONStatistics
    from qstrader.statistics.tearsheet import TearsheetStatistics
    xs = case['equity']
    ds, _ = make_index(case, len(xs))
    df1 = pd.DataFrame({'Equity': xs}, index=ds)
    df2 = pd.DataFrame({'Equity': xs}, index=ds)
    # like the frame a session hands over: no target allocation on the dates before the first rebalance (NaN in every column)
    lead = [0, 0, 1, 3, len(xs) // 2][len(xs) % 5] if len(xs) > 3 else 0
    alloc = pd.DataFrame({'EQ:AAA': [np.nan] * lead + [0.5] * (len(xs) - lead), 'EQ:BBB': [np.nan] * lead + [0.5] * (len(xs) - lead)},
                         index=ds)
    n = len(xs)
    bench = [xs[n - 1 - i] * (1.0 + 0.001 * i) * 1.7 for i in range(n)]     # a different curve on the same dates
    df3 = pd.DataFrame({'Equity': bench}, index=ds)
    df4 = pd.DataFrame({'Equity': bench}, index=ds)
    periods = [252, 252, 52, 12, 1638][len(xs) % 5]        # the reporters take the annualisation factor as a parameter
    with np.errstate(all='ignore'):
        if len(xs) % 3 == 0:
            ts_obj0 = TearsheetStatistics(strategy_equity=df1, periods=7)
            ts_obj0.periods = periods                 # the annualisation factor set after construction (a public attribute)
            acc.count('C17:tearsheets_given_their_periods_after_construction')
        else:
            ts_obj0 = TearsheetStatistics(strategy_equity=df1, periods=periods)
        ts_stats = ts_obj0.get_results(df1)
        ts_bench = TearsheetStatistics(strategy_equity=df4, periods=periods).get_results(df4)
        path = os.path.join(tmpdir, 'stats.json')
        js = JSONStatistics(equity_curve=df2, target_allocations=alloc, periods=periods, output_filename=path,
                            benchmark_curve=df3)
    acc.see('C17:periods_used', periods)
    # the caller goes on using ITS frames (a working frame re-filled for the next scenario) after the reporter was built,
    # before anything is read from it: the report describes the curves as they were given
    if len(xs) % 2 == 0:
        df2['Equity'] = [v * 2.5 + i for i, v in enumerate(xs)]
        df3['Equity'] = [v * 0.3 + 2 * i for i, v in enumerate(bench)]
        acc.count('C17:reports_read_after_the_callers_frames_were_refilled')
    # what get_results handed out is the caller's: rebased / converted in place, then the same question is asked again
    for k_ in ('cum_returns', 'drawdowns', 'returns'):
        try:
            ts_stats[k_] *= 100.0
        except Exception:
            pass
    ts_stats['max_drawdown'] = -1.0
    with np.errstate(all='ignore'):
        ts_stats = ts_obj0.get_results(df1)
    st = js.statistics['strategy']
    # every block of the export describes ITS OWN curve
    for block, curve, tsb in (('strategy', xs, ts_stats), ('benchmark', bench, ts_bench)):
        b = js.statistics[block]
        rl_b = d_returns(curve)
        total = prod1p(rl_b)
        for nm in ('monthly_agg_returns', 'yearly_agg_returns'):
            got = prod1p([v for _, v in b[nm]])
            if not core.close(float(got), total, total):
                V('json-aggregate-compounding/%s/%s' % (block, nm), '%s.%s compounds to %r, the %s curve\'s daily returns to %r'
                  % (block, nm, float(got), block, float(total)))
        # ... period by period: each month / year carries the compounded returns of the observations DATED in it
        by_m, by_y = {}, {}
        for d_, r_ in zip(ds, rl_b):
            d_ = pd.Timestamp(d_)
            by_m[(d_.year, d_.month)] = by_m.get((d_.year, d_.month), 1.0) * (1.0 + r_)
            by_y[d_.year] = by_y.get(d_.year, 1.0) * (1.0 + r_)
        got_m = {(int(k_[0]), int(k_[1])): float(v_) for k_, v_ in b['monthly_agg_returns']}
        got_y = {int(k_): float(v_) for k_, v_ in b['yearly_agg_returns']}
        if set(got_m) != set(by_m) or any(abs(got_m[k_] - (by_m[k_] - 1.0)) > 1e-9 * (1.0 + abs(by_m[k_])) for k_ in by_m):
            V('json-aggregate-periods/%s/monthly' % block, '%s.monthly_agg_returns %s; the observations dated in each month compound to %s'
              % (block, sorted(got_m.items())[:4], sorted((k_, v_ - 1.0) for k_, v_ in by_m.items())[:4]))
        if set(got_y) != set(by_y) or any(abs(got_y[k_] - (by_y[k_] - 1.0)) > 1e-9 * (1.0 + abs(by_y[k_])) for k_ in by_y):
            V('json-aggregate-periods/%s/yearly' % block, '%s.yearly_agg_returns %s; the observations dated in each year compound to %s'
              % (block, sorted(got_y.items())[:4], sorted((k_, v_ - 1.0) for k_, v_ in by_y.items())[:4]))
        acc.count('C17:json_aggregate_periods_checked', len(by_m))
        # the chart-formatted copies carry the same periods and values (x 100)
        hc = {(int(y_), int(m_)): float(v_) for m_, y_, v_ in b['monthly_agg_returns_hc']}
        years = sorted({int(k_[0]) for k_, _ in b['monthly_agg_returns']})
        plain = {(years.index(int(k_[0])), int(k_[1]) - 1): 100.0 * float(v_) for k_, v_ in b['monthly_agg_returns']}
        if set(hc) != set(plain) or any(not same(hc[k_], plain[k_], 1e-9, 1e-9) for k_ in plain):
            V('json-hc/monthly/%s' % block, '%s.monthly_agg_returns_hc has %d cells, monthly_agg_returns %d; cells only in one of them: %s'
              % (block, len(hc), len(plain), sorted(set(hc) ^ set(plain))[:4]))
        yhc = [float(v_) for v_ in b['yearly_agg_returns_hc']]
        yplain = [100.0 * float(v_) for _, v_ in b['yearly_agg_returns']]
        if len(yhc) != len(yplain) or any(not same(a_, b_, 1e-9, 1e-9) for a_, b_ in zip(yhc, yplain)):
            V('json-hc/yearly/%s' % block, '%s.yearly_agg_returns_hc %s differs from yearly_agg_returns x 100 %s' % (block, yhc[:3], yplain[:3]))
        acc.count('C17:json_chart_series_checks')
        for nm in ('sharpe', 'max_drawdown', 'max_drawdown_duration'):
            if not eqv(float(b[nm]), float(tsb[nm])):
                V('reporters-disagree/%s/%s' % (block, nm), 'JSON %s.%s=%r, tearsheet of the same curve says %r'
                  % (block, nm, b[nm], tsb[nm]))
        if not ill_conditioned(rl_b):
            for nm, want in (('sharpe', d_sharpe(rl_b, periods)), ('sortino', d_sortino(rl_b, periods)),
                             ('cagr', d_cagr([c_ / curve[0] for c_ in curve], periods))):
                if nm == 'sortino' and ill_conditioned(rl_b, True):
                    continue
                if not same(b[nm], want, 1e-7, 1e-2):
                    V('json-%s/%s' % (nm, block), 'JSON %s.%s = %r with periods=%d; the definition gives %r'
                      % (block, nm, b[nm], periods, want))
        vals = [float(v[1]) for v in b['equity_curve']]
        if vals != [float(v) for v in curve]:
            V('json-equity/%s' % block, 'JSON %s.equity_curve is not the %s curve' % (block, block))
        acc.count('C17:json_block_checks')
    # definitions of returns / cumulative returns
    rl = d_returns(xs)
    got_r = [float(v) for v in ts_stats['returns']]
    got_c = [float(v) for v in ts_stats['cum_returns']]
    for i in range(len(xs)):
        if not same(got_r[i], rl[i], 1e-9, 1e-12):
            V('returns-definition', 'return %d is %r, value/previous - 1 = %r' % (i, got_r[i], rl[i]))
        if not same(got_c[i], xs[i] / xs[0], 1e-9):
            V('cum-returns-definition', 'cumulative return %d is %r, value/first = %r' % (i, got_c[i], xs[i] / xs[0]))
    want_dd = d_drawdowns(got_c)
    got_dd = [float(v) for v in ts_stats['drawdowns']]
    for i, (g, w) in enumerate(zip(got_dd, want_dd)):
        if not same(g, w, 1e-9, 1e-12):
            V('drawdown-series/tearsheet', 'tearsheet drawdown at %d is %r, expected %r' % (i, g, w))
    if int(ts_stats['max_drawdown_duration']) != d_duration(want_dd):
        V('drawdown-duration/tearsheet', 'tearsheet duration %r, expected %d' % (ts_stats['max_drawdown_duration'], d_duration(want_dd)))
    # tearsheet and JSON agree
    pairs = [('sharpe', ts_stats['sharpe'], st['sharpe']),
             ('max_drawdown', ts_stats['max_drawdown'], st['max_drawdown']),
             ('max_drawdown_duration', ts_stats['max_drawdown_duration'], st['max_drawdown_duration'])]
    for nm, a, b in pairs:
        if not eqv(float(a), float(b)):
            V('reporters-disagree/%s' % nm, 'tearsheet %s=%r, JSON %s=%r' % (nm, a, nm, b))
    for nm, ser, lst in (('returns', got_r, st['returns']), ('cum_returns', got_c, st['cum_returns']),
                         ('drawdowns', got_dd, st['drawdowns'])):
        vals = [float(v[1]) for v in lst]
        if len(vals) != len(ser) or any(not eqv(a, b) for a, b in zip(ser, vals)):
            V('reporters-disagree/%s' % nm, 'tearsheet and JSON %s series differ' % nm)
    if not same(st['cagr'], d_cagr(got_c, periods), 1e-9, 1e-9):
        V('cagr/json', 'JSON cagr %r, expected %r' % (st['cagr'], d_cagr(got_c)))
    # the file says the same as the statistics object
    # a second reporter object for another curve must not change what the first one holds or writes
    snapshot = json.loads(json.dumps(js.statistics))
    other_curve = pd.DataFrame({'Equity': [v * (1.0 + 0.002 * (i % 7)) for i, v in enumerate(bench)]}, index=ds)
    with np.errstate(all='ignore'):
        JSONStatistics(equity_curve=other_curve, target_allocations=alloc, periods=periods,
                       output_filename=os.path.join(tmpdir, 'other.json'))
    if not json_equal(json.loads(json.dumps(js.statistics)), snapshot):
        V('json-object-changed-by-another', 'JSONStatistics.statistics of the first object changed when a second object was built '
          'for another curve')
    # the same frame analysed again after its Equity was revised: the results follow the new values
    df_re = pd.DataFrame({'Equity': xs}, index=ds)
    ts_obj = TearsheetStatistics(strategy_equity=df_re, periods=periods)
    with np.errstate(all='ignore'):
        ts_obj.get_results(df_re)
        df_re['Equity'] = bench
        again = ts_obj.get_results(df_re)
    for nm in ('sharpe', 'max_drawdown', 'max_drawdown_duration'):
        if not eqv(float(again[nm]), float(ts_bench[nm])):
            V('tearsheet-stale-after-revision/%s' % nm, 'get_results on a frame whose Equity was revised reports %s=%r; a fresh '
              'analysis of the same values gives %r' % (nm, again[nm], ts_bench[nm]))
    acc.count('C17:reanalysis_checks')
    js.to_file()
    with open(path) as f:
        back = json.load(f)
    want = json.loads(json.dumps(js.statistics))
    if not json_equal(back, want):
        V('json-file-differs', 'statistics.json differs from JSONStatistics.statistics')
    for nm in ('sharpe', 'sortino', 'cagr', 'max_drawdown', 'max_drawdown_duration'):
        if not eqv(float(back['strategy'][nm]), float(st[nm])):
            V('json-file-differs/%s' % nm, 'file %s=%r, statistics %r' % (nm, back['strategy'][nm], st[nm]))
    acc.count('C17:reporter_checks')


def check_tearsheet_figure(case, acc):
    """The rendered tearsheet: the numbers printed in its statistics panel, for the strategy and for a benchmark whose
    dates differ from the strategy's (it starts earlier), are those of the respective curve."""
    import matplotlib.pyplot as plt
    from qstrader.statistics.tearsheet import TearsheetStatistics
    xs = case['equity']
    n = len(xs)
    lead = 15
    if n % 2 == 0 and n >= 12:
        # every other figure is drawn for the same curve started in mid-December: it spans a year end
        case = dict(case, start='%s-12-%02d' % (case['start'][:4], 8 + n % 15))
    ds_b = business_dates(dt.date.fromisoformat(case['start']) - dt.timedelta(days=35), n + 40)
    ds_all, _ = make_index(case, n)
    first = ds_all[0]
    k0 = next(i for i, d in enumerate(ds_b) if pd.Timestamp(d).date() >= pd.Timestamp(first).date())
    ds_b = ds_b[max(0, k0 - lead):k0 + n]
    bench = [xs[(n - 1 - i) % n] * (1.0 + 0.002 * (i % 11)) * 1.3 for i in range(len(ds_b))]
    idx_s = ds_all if case['index'] == 'date' else pd.DatetimeIndex([pd.Timestamp(d) for d in ds_all])
    idx_b = ds_b if case['index'] == 'date' else pd.DatetimeIndex([pd.Timestamp(d) for d in ds_b])
    df_s = pd.DataFrame({'Equity': xs}, index=idx_s)
    df_b = pd.DataFrame({'Equity': bench}, index=idx_b)
    periods = 252
    ts_ = TearsheetStatistics(strategy_equity=df_s, benchmark_equity=df_b, title='t', periods=periods)
    old_show = plt.show
    plt.show = lambda *a, **k: None
    try:
        with np.errstate(all='ignore'):
            if n % 3 == 1:
                # an earlier tearsheet of ANOTHER curve was drawn in this process and its figure is still open
                TearsheetStatistics(strategy_equity=df_b, title='earlier', periods=periods).plot_results()
                acc.count('C17:tearsheet_figures_drawn_after_an_earlier_one_left_open')
            ts_.plot_results()
        fig = plt.gcf()
        panel = [ax for ax in fig.axes if ax.get_title() == 'Equity Curve' and len(ax.texts) > 8]
        if not panel:
            V('tearsheet-figure/no-panel', 'the rendered tearsheet has no statistics panel')
        texts = {}
        for t_ in panel[0].texts:
            x_, y_ = t_.get_position()
            texts[(round(x_, 2), round(y_, 1))] = t_.get_text()
        yearly_ax = [ax for ax in fig.axes if ax.get_title() == 'Yearly Returns (%)']
        bars = [float(p_.get_height()) for p_ in yearly_ax[0].patches] if yearly_ax else None
    finally:
        plt.show = old_show
        plt.close('all')
    for col, curve, who, frame in ((7.5, xs, 'strategy', df_s), (10.0, bench, 'benchmark', df_b)):
        rl = d_returns(curve)
        # the cumulative returns as the reporter itself computes them for THIS frame (an exact recovery to an old peak is
        # a float tie in cumulative-return space; the drawdown definitions are applied to the reporter's own series, as in
        # check_reporters) - what is decided here is which curve the panel describes
        with np.errstate(all='ignore'):
            own = TearsheetStatistics(strategy_equity=frame, periods=periods).get_results(frame)
        cum = [float(v_) for v_ in own['cum_returns']]
        if any(not same(c_, x_ / curve[0], 1e-9) for c_, x_ in zip(cum, curve)):
            V('cum-returns-definition', 'cumulative returns of the %s frame are not value/first' % who)
        dd = d_drawdowns(cum)
        want = {6.9: (cum[-1] - 1.0, 100.0, 0, '%'), 5.9: (d_cagr(cum, periods), 100.0, 2, '%'),
                1.9: (max(dd), 100.0, 2, '%'), 0.9: (float(d_duration(dd)), 1.0, 0, '')}
        if not ill_conditioned(rl):
            want[4.9] = (d_sharpe(rl, periods), 1.0, 2, '')
        for y_, (val, mult, nd, suffix) in want.items():
            txt = texts.get((col, y_))
            if txt is None:
                V('tearsheet-figure/missing/%s' % who, 'no %s figure at row %s of the statistics panel' % (who, y_))
            try:
                got = float(txt.replace('%', '').replace(',', ''))
            except ValueError:
                if val != val or abs(val) == float('inf'):
                    continue
                V('tearsheet-figure/unreadable/%s' % who, 'panel text %r' % txt)
            if val != val or abs(val) == float('inf'):
                continue
            if abs(got - val * mult) > 0.5000001 * 10 ** (-nd) + 1e-7 * abs(val * mult):
                V('tearsheet-figure/%s/row%s' % (who, y_), 'the tearsheet prints %r for the %s curve; its own values give %.*f%s '
                  '(panel rows from the top: total return, CAGR, Sharpe, Sortino, volatility, max drawdown, duration)'
                  % (txt, who, nd, val * mult, suffix))
    # the yearly bars of the figure are the tearsheet's yearly aggregate: one bar per calendar year of the strategy curve,
    # each the compounded daily returns of that year, together compounding to the total return
    if bars is not None:
        by_year = {}
        for i_, d_ in enumerate(ds_all):
            y_ = pd.Timestamp(d_).year
            r_ = 0.0 if i_ == 0 else xs[i_] / xs[i_ - 1] - 1.0
            by_year[y_] = by_year.get(y_, 1.0) * (1.0 + r_)
        want_bars = [(by_year[y_] - 1.0) * 100.0 for y_ in sorted(by_year)]
        if len(bars) != len(want_bars) or any(abs(g_ - w_) > 1e-6 * (1.0 + abs(w_)) for g_, w_ in zip(bars, want_bars)):
            V('tearsheet-figure/yearly-bars', 'the yearly bars of the rendered tearsheet are %s; the daily returns of the strategy '
              'curve compound to %s per calendar year %s' % ([round(b_, 6) for b_ in bars][:6], [round(w_, 6) for w_ in want_bars][:6],
                                                            sorted(by_year)[:6]))
        acc.count('C17:tearsheet_yearly_bars_read', len(bars))
        if len(bars) > 1:
            acc.count('C17:tearsheet_figures_spanning_several_years')
    acc.count('C17:tearsheet_figures_read')


def json_equal(a, b):
    if isinstance(a, float) and isinstance(b, float):
        return a == b or (a != a and b != b)
    if isinstance(a, dict) and isinstance(b, dict):
        return set(a) == set(b) and all(json_equal(a[k], b[k]) for k in a)
    if isinstance(a, list) and isinstance(b, list):
        return len(a) == len(b) and all(json_equal(x, y) for x, y in zip(a, b))
    return a == b


def run_case(case, acc, rng=None, tmpdir=None):
    rng = rng or random.Random(case.get('seed', 1))
    own = tmpdir is None
    if own:
        tmpdir = tempfile.mkdtemp(prefix='qsmon-curve-')
    try:
        try:
            dd = check_perf(case, acc)
            check_scale(case, acc, rng)
            if len(case['equity']) <= 300:
                check_reporters(case, acc, tmpdir)
            if case.get('figure') and 3 <= len(case['equity']) <= 400:
                check_tearsheet_figure(case, acc)
        except Violation as v:
            acc.violation(v, case)
            return None
        return dd
    finally:
        if own:
            shutil.rmtree(tmpdir, ignore_errors=True)


def episodes(dd):
    n, inside = 0, False
    for v in dd:
        if v != 0 and not inside:
            n += 1
        inside = v != 0
    return n


def shard(spec, acc):
    core.boot()
    import matplotlib
    matplotlib.use('Agg')
    rng = random.Random(spec['rng'])
    t_end = time.time() + spec['budget_s']
    tmpdir = tempfile.mkdtemp(prefix='qsmon-curve-')
    try:
        for i in range(spec['cases']):
            if time.time() > t_end:
                acc.count('stopped_on_time_budget')
                break
            case = gen_curve(rng)
            case['seed'] = rng.randint(0, 2 ** 31)
            case['figure'] = (i % 40 == 3)
            dd = run_case(case, acc, random.Random(case['seed']), tmpdir)
            acc.evaluations += 1
            acc.count('C17:class/%s' % case['kind'])
            if all(isinstance(x, int) for x in case['equity']):
                acc.count('C17:integer_dtype_curves')
            if dd is not None and episodes(dd) >= 2:
                acc.nontriv('C17', case['kind'], len(case['equity']), case['equity'][:6], case['start'])
            if i % 3 == 1 and len(case['equity']) >= 4 and len(set(case['equity'][1:-1])) > 1:
                # a sibling analysed next in the same process: same dates, same first, last, highest and lowest value, the
                # values in between met in another order - its statistics are its own, not those of the curve before
                sib = dict(case, figure=False, kind=case['kind'])
                mid = case['equity'][1:-1]
                sib['equity'] = [case['equity'][0]] + (mid[::-1] if i % 2 else mid[len(mid) // 2:] + mid[:len(mid) // 2]) \
                    + [case['equity'][-1]]
                run_case(sib, acc, random.Random(case['seed'] + 1), tmpdir)
                acc.evaluations += 1
                acc.count('C17:sibling_curves_same_ends_and_extremes')
            if i < 2:
                acc.sample({'kind': case['kind'], 'start': case['start'], 'index': case['index'],
                            'n': len(case['equity']), 'equity_head': case['equity'][:8]})
    finally:
        shutil.rmtree(tmpdir, ignore_errors=True)
