"""
W-BROKER: hostile operation sequences against the real SimulatedBroker, with a
shadow model in exact rationals and the monitors for C01..C05 and C15.

A *case* is {'cfg': {...}, 'ops': [[kind, args...], ...]} and is fully
JSON-able; `run_case` re-executes it from scratch (this is what --replay does).
Cases are generated in lock-step with the live system (`generate_case`) so that
amounts such as "exactly all the cash" can be read through the public getters.
"""
import hashlib
import json
import os
import random
import sys
from fractions import Fraction

import numpy as np
import pandas as pd

from qsmon import core
from qsmon.core import F, Violation, close, is_cents

ASSETS = ['EQ:AAA', 'EQ:BBB', 'EQ:CCC', 'EQ:DDD', 'EQ:EEE']
ODD_ASSETS = ['EQ:spy', 'EQ:Brk.b', 'EQ:AAA', 'EQ:aaa', 'EQ:CCC']      # symbols are case-sensitive strings
MON_OPEN = '2019-03-04 14:30:00'   # a Monday


def ts(s):
    t = pd.Timestamp(s)
    if t.tzinfo is None:
        t = t.tz_localize('UTC')
    return t


def in_hours(t):
    """Independent exchange-hours predicate on the UTC wall-clock fields."""
    if t.weekday() > 4:
        return False
    secs = t.hour * 3600 + t.minute * 60 + t.second + t.microsecond / 1e6
    return 14 * 3600 + 30 * 60 <= secs < 21 * 3600


def hours_cell(t):
    if t.weekday() > 4:
        return 'weekend'
    hm = (t.hour, t.minute, t.second, t.microsecond)
    if hm == (14, 30, 0, 0):
        return 'open-instant'
    if hm == (21, 0, 0, 0):
        return 'close-instant'
    if hm == (14, 29, 59, 999999):
        return 'open-1us'
    if hm == (20, 59, 59, 999999):
        return 'close-1us'
    return 'open' if in_hours(t) else 'closed'


# ---------------------------------------------------------------------------
# synthetic data handler
# ---------------------------------------------------------------------------

class QuoteBook(object):
    """
    Harness-owned data handler. Quotes are valid for the instant `now` only; a
    read for any other instant returns a decoy pair (deterministic, unique) so
    that a fill priced with the wrong time is visible in the price itself.
    """

    def __init__(self):
        self.q = {}
        self.now = None
        self.reads = 0
        self.offgrid = 0

    def set(self, asset, bid, ask):
        self.q[asset] = (float(bid), float(ask))

    def _decoy(self, dt, asset):
        h = hashlib.sha1(('%s|%s' % (asset, dt)).encode()).digest()
        a = 3.0 + int.from_bytes(h[:4], 'big') / 2 ** 32 * 900.0
        return (round(a, 6), round(a * 1.013 + 0.017, 6))

    def quote(self, dt, asset):
        self.reads += 1
        if self.now is not None and dt == self.now:
            return self.q[asset]
        self.offgrid += 1
        return self._decoy(dt, asset)

    def get_asset_latest_bid_price(self, dt, asset):
        return self.quote(dt, asset)[0]

    def get_asset_latest_ask_price(self, dt, asset):
        return self.quote(dt, asset)[1]

    def get_asset_latest_bid_ask_price(self, dt, asset):
        return self.quote(dt, asset)

    def get_asset_latest_mid_price(self, dt, asset):
        b, a = self.quote(dt, asset)
        return (b + a) / 2.0


# ---------------------------------------------------------------------------
# instrumentation on the real classes (attribute replacement, no source edits)
# ---------------------------------------------------------------------------

class _Instr(object):
    installed = False
    cash_writes = []     # (portfolio_id, old, new, writer)
    master_writes = []   # (key, old, new, writer)
    txns = []            # dict per delivered Transaction
    hits = {'cash_write': 0, 'master_write': 0, 'transact_asset': 0}


class _CashWatch(object):
    """Data descriptor installed on Portfolio for attribute `cash`."""

    def __get__(self, obj, cls):
        if obj is None:
            return self
        try:
            return obj.__dict__['_qsmon_cash']
        except KeyError:
            raise AttributeError('cash')

    def __set__(self, obj, val):
        f = sys._getframe(1)
        _Instr.cash_writes.append(
            (getattr(obj, 'portfolio_id', None), obj.__dict__.get('_qsmon_cash'),
             val, f.f_code.co_name))
        _Instr.hits['cash_write'] += 1
        obj.__dict__['_qsmon_cash'] = val


class WatchedDict(dict):
    def __setitem__(self, k, v):
        f = sys._getframe(1)
        _Instr.master_writes.append((k, self.get(k), v, f.f_code.co_name))
        _Instr.hits['master_write'] += 1
        dict.__setitem__(self, k, v)


def install():
    if _Instr.installed:
        return
    core.boot()
    from qstrader.broker.portfolio.portfolio import Portfolio
    Portfolio.cash = _CashWatch()
    orig = Portfolio.transact_asset

    def transact_asset(self, txn):
        rec = {'pid': self.portfolio_id, 'asset': txn.asset, 'qty': txn.quantity,
               'price': txn.price, 'commission': txn.commission, 'dt': txn.dt,
               'order_id': txn.order_id, 'raised': None}
        _Instr.txns.append(rec)
        _Instr.hits['transact_asset'] += 1
        try:
            return orig(self, txn)
        except BaseException as e:
            rec['raised'] = type(e).__name__
            raise
    transact_asset.__wrapped__ = orig
    Portfolio.transact_asset = transact_asset
    _install_contracts()
    _Instr.installed = True


class ContractBroken(Exception):
    pass


CONTRACT_EVALS = {'n': 0}


def _install_contracts():
    """icontract class invariants (invariant-at-a-hook on the real classes)."""
    try:
        import icontract
    except Exception:
        return
    from qstrader.broker.portfolio.position_handler import PositionHandler
    from qstrader.broker.portfolio.portfolio import Portfolio

    def no_flat_position_kept(self):
        CONTRACT_EVALS['n'] += 1
        return all(p.net_quantity != 0 for p in self.positions.values())

    def equity_is_cash_plus_market_value(self):
        CONTRACT_EVALS['n'] += 1
        if '_qsmon_cash' not in self.__dict__:
            return True
        mv = self.pos_handler.total_market_value()
        eq = self.total_equity
        if eq != eq or mv != mv:
            return True
        return abs(eq - (mv + self.cash)) <= 1e-9 * (abs(mv) + abs(self.cash) + 1)

    try:
        icontract.invariant(no_flat_position_kept, error=ContractBroken)(PositionHandler)
        icontract.invariant(equity_is_cash_plus_market_value, error=ContractBroken)(Portfolio)
    except Exception:
        pass


# ---------------------------------------------------------------------------
# shadow model
# ---------------------------------------------------------------------------

class MPos(object):
    __slots__ = ('net', 'last', 'bq', 'sq', 'bpq', 'spq', 'bc', 'sc', 'nfills')

    def __init__(self):
        self.net = 0
        self.last = None
        self.bq = self.sq = 0
        self.bpq = self.spq = Fraction(0)
        self.bc = self.sc = Fraction(0)
        self.nfills = 0


class MPort(object):
    def __init__(self):
        self.cash = Fraction(0)
        self.flow = Fraction(0)      # sum of |movements|, tolerance scale
        self.pos = {}
        self.hist = []               # expected history events
        self.pending = []            # dicts: order_id, asset, qty
        self.filled = []             # order ids already filled


class Model(object):
    def __init__(self, master):
        self.master = F(master)
        self.mflow = abs(F(master))
        self.ports = {}


# ---------------------------------------------------------------------------
# the scenario: real system + model + monitors
# ---------------------------------------------------------------------------

GETTER_FAULTS = {
    'get_cash_unknown': ('get_portfolio_cash_balance', 'ValueError'),
    'get_mv_unknown': ('get_portfolio_total_market_value', 'KeyError'),
    'get_eq_unknown': ('get_portfolio_total_equity', 'KeyError'),
    'get_dict_unknown': ('get_portfolio_as_dict', 'KeyError'),
}


class Stop(Exception):
    """The case cannot be continued (model and system have diverged)."""


class Scenario(object):

    def __init__(self, cfg, active, acc):
        install()
        from qstrader.broker.simulated_broker import SimulatedBroker
        from qstrader.exchange.simulated_exchange import SimulatedExchange
        from qstrader.broker.fee_model.zero_fee_model import ZeroFeeModel
        from qstrader.broker.fee_model.percent_fee_model import PercentFeeModel
        self.cfg = cfg
        self.active = set(active)
        self.acc = acc
        self.book = QuoteBook()
        self.t = ts(cfg['start'])
        self.book.now = self.t
        for a, (b, k) in cfg['quotes'].items():
            self.book.set(a, b, k)
        fee = cfg['fee']
        if fee[0] == 'zero':
            self.fee_model = ZeroFeeModel()
            self.rates = (Fraction(0), Fraction(0))
        else:
            self.fee_model = PercentFeeModel(commission_pct=fee[1], tax_pct=fee[2])
            self.rates = (F(fee[1]), F(fee[2]))
        self.exchange = SimulatedExchange(self.t)
        from qstrader import settings as _st0
        _st0.SUPPORTED['CURRENCIES'] = [c_ for c_ in _st0.SUPPORTED['CURRENCIES'] if c_ != 'CHF']
        self.ccy = cfg.get('base_currency', 'USD')
        self.broker = SimulatedBroker(
            self.t, self.exchange, self.book, account_id='acct', base_currency=self.ccy,
            initial_funds=cfg['initial_funds'], fee_model=self.fee_model)
        self.broker.cash_balances = WatchedDict(self.broker.cash_balances)
        if cfg.get('currency_added_later'):
            # the host program extends the library's list of supported currencies AFTER this broker exists: the broker's own
            # accounts are what they were, a balance query in the new currency is still an unsupported one
            from qstrader import settings as _st
            if 'CHF' not in _st.SUPPORTED['CURRENCIES']:
                _st.SUPPORTED['CURRENCIES'] = list(_st.SUPPORTED['CURRENCIES']) + ['CHF']
        self.model = Model(cfg['initial_funds'] if cfg['initial_funds'] > 0 else 0)
        self.norder = 0
        self.orders = {}         # order_id -> dict(pid, asset, qty, submitted_at(idx), submit_time)
        self.fills_seen = {}     # order_id -> count
        self.opidx = -1
        self.snap = self.snapshot()
        self.ops_done = []
        self.flags = set()

    def portfolios(self):
        return self.broker.portfolios

    # -- observation through the public API ---------------------------------

    def snapshot(self):
        b = self.broker
        s = {'master': dict(b.get_account_cash_balance()), 'ports': {}}
        # objects the broker handed out earlier (Portfolio objects, the holdings mapping, Position objects, reports) are kept
        # by this caller, like an application would, and must go on describing the same account
        handles = self.__dict__.setdefault('_handles', {'pf': {}, 'pos': {}, 'map': {}, 'report': {}, 'n': 0})
        handles['n'] += 1
        listing = b.list_all_portfolios()
        if listing is not None and len(listing) != len(b.portfolios):
            self.viol(sorted(self.active)[0], 'portfolio-listing', 'list_all_portfolios() has %d entries, the account has %d portfolios'
                      % (len(listing), len(b.portfolios)))
        if isinstance(listing, list):
            del listing[:]                          # the caller's list, emptied by the caller
        for pid in list(b.portfolios.keys()):
            p = b.portfolios[pid]
            old_p = handles['pf'].setdefault(pid, p)
            if old_p is not p and (old_p.cash != p.cash or len(old_p.history) != len(p.history)
                                   or old_p.portfolio_to_dict() != p.portfolio_to_dict()):
                self.viol(sorted(self.active)[0], 'stale-handle/portfolio', 'the Portfolio object obtained earlier for %s no longer describes '
                          'that portfolio: cash %r vs %r, %d vs %d history entries' % (pid, old_p.cash, p.cash, len(old_p.history), len(p.history)))
            mp_ = handles['map'].setdefault(pid, p.pos_handler.positions)
            now_ = p.pos_handler.positions
            if mp_ is not now_ and {a: x.net_quantity for a, x in mp_.items() if x.net_quantity != 0} != \
                    {a: x.net_quantity for a, x in now_.items()}:
                self.viol(sorted(self.active)[0], 'stale-handle/positions', 'the holdings mapping obtained earlier for %s shows %s, the '
                          'portfolio holds %s' % (pid, {a: x.net_quantity for a, x in mp_.items()}, {a: x.net_quantity for a, x in now_.items()}))
            for a, x in now_.items():
                ox = handles['pos'].get((pid, a))
                if ox is not None and ox is not x and ox.net_quantity != 0 and (
                        ox.net_quantity != x.net_quantity or ox.current_price != x.current_price):
                    self.viol(sorted(self.active)[0], 'stale-handle/position', 'the Position object obtained earlier for %s in %s shows '
                              'quantity %r price %r, the portfolio\'s position %r / %r' % (a, pid, ox.net_quantity, ox.current_price,
                                                                                         x.net_quantity, x.current_price))
                handles['pos'][(pid, a)] = x
            for k_ in [k_ for k_ in handles['pos'] if k_[0] == pid and k_[1] not in now_]:
                del handles['pos'][k_]
            report = b.get_portfolio_as_dict(pid)
            kept = {a: dict(d) for a, d in report.items()}
            prev = handles['report'].pop(pid, None)
            if prev is not None and prev[0] != prev[1]:
                self.viol(sorted(self.active)[0], 'report-changed-after-it-was-handed-out', 'a holdings report of %s obtained earlier read '
                          '%s when it was returned and reads %s now' % (pid, prev[1], prev[0]))
            if handles['n'] % 2:
                handles['report'][pid] = (report, {a: dict(d) for a, d in report.items()})     # kept as is, looked at next time
            else:
                # the report is the caller's own copy: what the caller then does with it (here: empties it) is not the
                # broker's business and must not reach the books
                for d_ in report.values():
                    d_.clear()
                report.clear()
            s['ports'][pid] = {
                'cash': b.get_portfolio_cash_balance(pid),
                'hold': kept,
                'mv': b.get_portfolio_total_market_value(pid),
                'eq': b.get_portfolio_total_equity(pid),
                'pend': [o.order_id for o in list(b.open_orders[pid].queue)],
                'hist': [(str(e.dt), e.type, e.description, e.debit, e.credit, e.balance)
                         for e in p.history],
                'pnl': (p.total_pnl, p.total_realised_pnl, p.total_unrealised_pnl),
                'clock': p.current_dt,
                'marks': {a: (str(pos.current_dt), pos.current_price) for a, pos in p.pos_handler.positions.items()},
            }
        return s

    @staticmethod
    def canon(s, with_clock=False):
        """Listed observables only, floats as hex (exact comparison, NaN-safe)."""
        def h(x):
            if isinstance(x, (float, np.floating)):
                return float(x).hex()
            if isinstance(x, (int, np.integer)):
                return int(x)
            return x
        out = {'master': {k: h(v) for k, v in s['master'].items()}, 'ports': {}}
        for pid, p in s['ports'].items():
            out['ports'][pid] = {
                'cash': h(p['cash']),
                'hold': {a: {k: h(v) for k, v in d.items()} for a, d in p['hold'].items()},
                'mv': h(p['mv']), 'eq': h(p['eq']),
                'pend': list(p['pend']),
                'hist': [tuple(h(x) for x in e) for e in p['hist']],
                # each holding's own mark (price and the time it carries): part of the holding, a refused request leaves it
                'marks': {a: (m_[0], h(m_[1])) for a, m_ in p.get('marks', {}).items()},
            }
        return out

    # -- classification of a request from the harness's own view -------------

    def classify(self, op):
        """Return set of acceptable exception type names, or {'ok'}."""
        k = op[0]
        b = self.broker
        live_master = b.get_account_cash_balance(self.ccy)
        if k == 'acct_sub':
            return {'ValueError'} if op[1] < 0 else {'ok'}
        if k == 'acct_wd':
            if op[1] < 0 or op[1] > live_master:
                return {'ValueError'}
            return {'ok'}
        if k in ('p_sub', 'p_wd'):
            pid, amt = op[1], op[2]
            errs = set()
            if amt < 0:
                errs.add('ValueError')
            if pid not in self.model.ports:
                errs.add('KeyError')
            else:
                if k == 'p_sub' and amt > live_master:
                    errs.add('ValueError')
                if k == 'p_wd' and amt > b.get_portfolio_cash_balance(pid):
                    errs.add('ValueError')
                if b.current_dt < b.portfolios[pid].current_dt:
                    errs.add('ValueError')
            return errs or {'ok'}
        if k == 'create':
            return {'ValueError'} if str(op[1]) in self.model.ports else {'ok'}
        if k == 'order':
            return {'ok'} if op[1] in self.model.ports else {'KeyError'}
        if k in GETTER_FAULTS:
            return {GETTER_FAULTS[k][1]} if op[1] not in self.model.ports else {'ok'}
        if k == 'get_acct_cash_ccy':
            return {'ok'} if op[1] in ('USD', 'GBP', 'EUR') else {'ValueError'}
        if k == 'new_broker':
            bad = op[1] not in ('USD', 'GBP', 'EUR') or op[2] < 0
            return {'ValueError'} if bad else {'ok'}
        if k in ('quote', 'swap_book'):
            return {'ok'}
        if k in ('update', 'exec'):
            t = ts(op[1]) if k == 'update' else ts(op[3])
            return self._classify_update(t, exec_pid=op[1] if k == 'exec' else None,
                                         exec_orders=op[2] if k == 'exec' else None)
        if k.startswith('pf_'):
            return self._classify_pf(op)
        raise ValueError('unknown op %r' % (op,))

    def _classify_update(self, t, exec_pid=None, exec_orders=None):
        errs = set()
        if exec_pid is not None and exec_pid not in self.model.ports:
            return {'KeyError'} if exec_orders else {'ok'}
        b = self.broker
        for pid, mp in self.model.ports.items():
            clock = b.portfolios[pid].current_dt
            held = [a for a, p in mp.pos.items() if p.net != 0]
            will_fill = in_hours(t) and (
                bool(mp.pending) or (exec_pid == pid and bool(exec_orders)))
            if t < clock and (held or will_fill):
                errs.add('ValueError')
            for a in held:
                # a position remembers the time of its last mark / fill (public attribute, read live like the
                # portfolio clock): an update earlier than that is refused as well
                pos = b.portfolios[pid].pos_handler.positions.get(a)
                if pos is not None and t < pos.current_dt:
                    errs.add('ValueError')
                if a not in self.book.q:
                    continue
                bid, ask = self.book.q[a]
                if (bid + ask) / 2.0 < 0:
                    errs.add('ValueError')
        if exec_pid is not None and not exec_orders:
            return {'ok'}
        return errs or {'ok'}

    def _classify_pf(self, op):
        k, pid = op[0], op[1]
        p = self.portfolios()[pid]
        mp = self.model.ports[pid]
        if k in ('pf_sub', 'pf_wd'):
            t, amt = ts(op[2]), op[3]
            bad = t < p.current_dt or amt < 0 or (k == 'pf_wd' and amt > p.cash)
            return {'ValueError'} if bad else {'ok'}
        if k == 'pf_txn':
            t = ts(op[2])
            pos = p.pos_handler.positions.get(op[3])
            # a position remembers the time of its last mark / fill: a transaction earlier than that is refused too
            behind = pos is not None and t < pos.current_dt
            # a fill without a positive price is refused by the position it would change
            badprice = pos is not None and op[4] != 0 and not (op[5] > 0)
            return {'ValueError'} if (t < p.current_dt or behind or badprice) else {'ok'}
        if k == 'pf_mark':
            asset, price, t = op[2], op[3], ts(op[4])
            if asset not in mp.pos or mp.pos[asset].net == 0:
                return {'ok'}
            pos = p.pos_handler.positions.get(asset)
            behind = pos is not None and t < pos.current_dt
            return {'ValueError'} if (price < 0 or t < p.current_dt or behind) else {'ok'}
        raise ValueError(op)

    # -- execution ----------------------------------------------------------

    def execute(self, op):
        from qstrader.execution.order import Order
        from qstrader.execution.execution_handler import ExecutionHandler
        from qstrader.execution.execution_algo.market_order import MarketOrderExecutionAlgorithm
        from qstrader.broker.simulated_broker import SimulatedBroker
        from qstrader.broker.transaction.transaction import Transaction
        b = self.broker
        k = op[0]
        if k == 'acct_sub':
            return b.subscribe_funds_to_account(op[1])
        if k == 'acct_wd':
            return b.withdraw_funds_from_account(op[1])
        if k == 'p_sub':
            return b.subscribe_funds_to_portfolio(op[1], op[2])
        if k == 'p_wd':
            return b.withdraw_funds_from_portfolio(op[1], op[2])
        if k == 'create':
            return b.create_portfolio(op[1], name='n')
        if k == 'order':
            created = b.current_dt
            if len(op) > 6 and op[6]:
                created = b.current_dt + pd.Timedelta(op[6])     # an order object stamped earlier / later than "now"
            o = Order(created, op[2], op[3], order_id=op[4], commission=(op[5] if len(op) > 5 else 0.0))
            return b.submit_order(op[1], o)
        if k in GETTER_FAULTS:
            return getattr(b, GETTER_FAULTS[k][0])(op[1])
        if k == 'get_acct_cash_ccy':
            return b.get_account_cash_balance(op[1])
        if k == 'new_broker':
            return SimulatedBroker(self.t, self.exchange, self.book,
                                   base_currency=op[1], initial_funds=op[2])
        if k == 'quote':
            if len(op) > 2 and op[2] == 'swap' and b is not None:
                # the broker is given ANOTHER data handler object (a revised feed) carrying the current quotes plus the
                # new ones: broker.data_handler is a plain public attribute
                nb = QuoteBook()
                nb.q = dict(self.book.q)
                nb.now = self.book.now
                self.book = nb
                b.data_handler = nb
                self.acc.count('data_handler_objects_swapped_on_a_live_broker')
            for a, (bid, ask) in op[1].items():
                self.book.set(a, bid, ask)
            return None
        if k == 'update':
            t = ts(op[1])
            self.book.now = t
            return b.update(t)
        if k == 'exec':
            t = ts(op[3])
            self.book.now = t
            eh = ExecutionHandler(b, op[1], None, submit_orders=True,
                                  execution_algo=MarketOrderExecutionAlgorithm())
            orders = [Order(t, a, q, order_id=oid) for a, q, oid in op[2]]
            return eh(t, orders)
        p = self.portfolios()[op[1]] if k.startswith('pf_') else None
        if k == 'pf_sub':
            return p.subscribe_funds(ts(op[2]), op[3])
        if k == 'pf_wd':
            return p.withdraw_funds(ts(op[2]), op[3])
        if k == 'pf_txn':
            comm_ = op[6] if len(op) > 6 else 0.0
            if (len(op[3]) + int(abs(op[4]))) % 3 == 0:
                # the transaction object is created first and completed afterwards (commission known once the
                # consideration is): plain public attributes
                txn_ = Transaction(op[3], op[4], ts(op[2]), op[5], op[7] if len(op) > 7 else 'pf', commission=0.0)
                txn_.commission = comm_
                return p.transact_asset(txn_)
            return p.transact_asset(Transaction(op[3], op[4], ts(op[2]), op[5], op[7] if len(op) > 7 else 'pf', commission=comm_))
        if k == 'pf_mark':
            return p.update_market_value_of_asset(op[2], op[3], ts(op[4]))
        raise ValueError(op)

    # -- one step -----------------------------------------------------------

    def viol(self, prop, key, msg, **w):
        w['op_index'] = self.opidx
        w['op'] = self.ops_done[-1] if self.ops_done else None
        raise Violation(prop, key, msg, w)

    def step(self, op):
        self.opidx += 1
        self.ops_done.append(op)
        acc = self.acc
        before = self.snap
        self._clock_before = {pid: p['clock'] for pid, p in before['ports'].items()}
        expect = self.classify(op)
        del _Instr.cash_writes[:]
        del _Instr.master_writes[:]
        del _Instr.txns[:]
        acc.count('op:%s' % op[0])
        try:
            self.execute(op)
            outcome = 'ok'
            exc = None
        except ContractBroken as e:
            outcome, exc = 'contract', e
        except Exception as e:    # noqa
            outcome, exc = type(e).__name__, e
        try:
            after = self.snapshot()
        except Violation:
            raise
        except Exception as e:
            if any(p in self.active for p in ('C01', 'C02', 'C15')):
                self.viol(sorted(self.active)[0], 'getter-raised/%s' % type(e).__name__,
                          'a public getter raised %r after op %r' % (e, op))
            raise Stop()
        self.snap = after
        acc.count('api_calls')
        acc.count('cash_writes_seen', len(_Instr.cash_writes))
        acc.count('master_writes_seen', len(_Instr.master_writes))
        for w in _Instr.cash_writes:
            acc.see('cash_writers', w[3])
        for w in _Instr.master_writes:
            acc.see('master_writers', w[3])

        if outcome == 'contract':
            for prop in ('C02', 'C01', 'C03'):
                if prop in self.active:
                    self.viol(prop, 'contract/%s' % op[0],
                              'class invariant broken: %s' % exc)
            raise Stop()

        if outcome != 'ok':
            # refused
            acc.count('refused:%s' % op[0])
            if 'C15' in self.active:
                self.check_refusal(op, expect, outcome, exc, before, after)
            if 'ok' in expect and len(expect) == 1:
                # a valid request raised
                for prop in sorted(self.active - {'C15'}):
                    self.viol(prop, 'valid-request-raised/%s/%s' % (op[0], outcome),
                              'valid request %r raised %s: %s' % (op, outcome, exc))
                raise Stop()
            if self.canon(before) != self.canon(after):
                if 'C01' in self.active:
                    cb, ca = self.canon(before), self.canon(after)
                    cash_b = (cb['master'], {p: v['cash'] for p, v in cb['ports'].items()})
                    cash_a = (ca['master'], {p: v['cash'] for p, v in ca['ports'].items()})
                    if cash_b != cash_a:
                        self.viol('C01', 'cash-changed-by-refused-request/%s' % op[0],
                                  'request %r was refused with %s but a cash balance changed: %s'
                                  % (op, outcome, [d for d in diff_snap(cb, ca) if 'cash' in d][:4]))
                if 'C04' in self.active and op[0] not in ('update', 'exec'):
                    pb = {p: v['pend'] for p, v in before['ports'].items()}
                    pa = {p: v['pend'] for p, v in after['ports'].items() if p in pb}
                    if pb != pa:
                        self.viol('C04', 'pending-order-dropped-by-refused-request/%s' % op[0], 'request %r was refused with %s and the '
                                  'pending orders went from %s to %s' % (op, outcome, pb, pa))
                if 'C02' in self.active:
                    hb = {p: v['hold'] for p, v in self.canon(before)['ports'].items()}
                    ha = {p: v['hold'] for p, v in self.canon(after)['ports'].items() if p in hb}
                    if hb != ha and op[0] not in ('update', 'exec'):
                        self.viol('C02', 'holdings-changed-by-refused-request/%s' % op[0], 'request %r was refused with %s and the '
                                  'holdings report changed: %s' % (op, outcome, diff_snap(self.canon(before), self.canon(after))[:3]))
                if 'C03' in self.active and op[0] in ('pf_txn', 'pf_mark'):
                    # a refused fill is not a fill: the P&L figures describe the fills made, before and after the refusal
                    pb = {p: tuple(float(x).hex() for x in v['pnl']) for p, v in before['ports'].items()}
                    pa = {p: tuple(float(x).hex() for x in v['pnl']) for p, v in after['ports'].items() if p in pb}
                    if pb != pa:
                        self.viol('C03', 'pnl-changed-by-refused-request/%s' % op[0], 'request %r was refused with %s and the '
                                  '(total, realised, unrealised) P&L went from %s to %s' % (
                                      op, outcome, {p: before['ports'][p]['pnl'] for p in pb if pb[p] != pa.get(p)},
                                      {p: after['ports'][p]['pnl'] for p in pa if pb[p] != pa.get(p)}))
                raise Stop()   # partial update; only C15 judges the rest
            return

        # accepted
        if 'ok' not in expect:
            if 'C01' in self.active and op[0] in ('p_sub', 'p_wd') and op[1] in before['ports'] and self.broker is not None:
                # whatever one thinks of accepting it: a transfer that took place must be zero-sum
                base = getattr(self, 'ccy', 'USD')
                dm = F(after['master'][base]) - F(before['master'][base])
                dp = F(after['ports'][op[1]]['cash']) - F(before['ports'][op[1]]['cash'])
                scale = abs(F(before['master'][base])) + abs(F(before['ports'][op[1]]['cash'])) + abs(F(op[2])) + 1
                if abs(dm + dp) > Fraction(core.REL) * scale:
                    self.viol('C01', 'transfer-not-zero-sum/%s' % op[0],
                              'transfer %r (which the harness would have expected to be refused) moved the master account by %s '
                              'and the portfolio by %s' % (op, float(dm), float(dp)))
            if 'C15' in self.active:
                self.viol('C15', 'silently-accepted/%s' % self.fault_kind(op, expect),
                          'invalid request %r was accepted (expected %s)' % (op, sorted(expect)),
                          before=self.canon(before), after=self.canon(after))
            raise Stop()
        self.apply_and_check(op, before, after)

    # -- C15 ------------------------------------------------------------------

    def fault_kind(self, op, expect):
        k = op[0]
        if k in ('acct_sub', 'acct_wd'):
            return k + ('/negative' if op[1] < 0 else '/over')
        if k in ('p_sub', 'p_wd'):
            if op[2] < 0:
                return k + '/negative'
            if op[1] not in self.model.ports:
                return k + '/unknown-portfolio'
            if self.broker.current_dt < self._clock_before.get(op[1], self.broker.current_dt):
                return k + '/stale-broker-clock'
            return k + '/over'
        if k in ('update', 'exec'):
            t = ts(op[1]) if k == 'update' else ts(op[3])
            back = any(t < c for c in self._clock_before.values()) or any(
                t < pos.current_dt for p in self.broker.portfolios.values() for pos in p.pos_handler.positions.values())
            return k + ('/backwards-clock' if back else '/negative-mark')
        if k in ('pf_sub', 'pf_wd'):
            if ts(op[2]) < self._clock_before[op[1]]:
                return k + '/backwards-clock'
            return k + ('/negative' if op[3] < 0 else '/over')
        if k == 'pf_mark':
            if op[3] < 0:
                return k + '/negative'
            return k + ('/backwards-clock' if ts(op[4]) < self._clock_before[op[1]] else '/behind-position-clock')
        if k == 'pf_txn':
            if not (op[5] > 0):
                return k + '/non-positive-price'
            return k + ('/backwards-clock' if ts(op[2]) < self._clock_before[op[1]] else '/behind-position-clock')
        return k

    def state_class(self):
        pos = any(p.net != 0 for mp in self.model.ports.values() for p in mp.pos.values())
        pend = any(mp.pending for mp in self.model.ports.values())
        return {(False, False): 'empty', (True, False): 'positions',
                (False, True): 'pending', (True, True): 'positions+pending'}[(pos, pend)]

    def check_refusal(self, op, expect, outcome, exc, before, after):
        acc = self.acc
        if 'ok' in expect and len(expect) == 1:
            return  # handled by the caller as valid-request-raised
        kind = self.fault_kind(op, expect)
        if op[0] == 'exec' and 'KeyError' not in expect:
            raise Stop()   # composite request (submit accepted, update refused): not one request
        acc.count('C15:refusals_checked')
        acc.see('C15:cells', '%s @ %s' % (kind, self.state_class()))
        cb, ca = self.canon(before), self.canon(after)
        if cb != ca:
            diffs = diff_snap(cb, ca)
            fields = sorted({d.split(':')[0] for d in diffs})
            self.viol('C15', 'partial-update/%s/%s' % (kind, '+'.join(fields)),
                      'request %r was refused with %s but state changed: %s'
                      % (op, outcome, '; '.join(diffs[:6])),
                      differences=diffs[:20], exception=str(exc)[:300])
        if outcome not in expect:
            self.viol('C15', 'wrong-error-type/%s/%s' % (kind, outcome),
                      'request %r raised %s (%s), documented type is %s'
                      % (op, outcome, str(exc)[:200], sorted(expect - {'ok'})))

    # -- model update + monitors for accepted requests ------------------------

    def apply_and_check(self, op, before, after):
        m = self.model
        k = op[0]
        acc = self.acc
        A = self.active
        delivered = [t for t in _Instr.txns if t['raised'] is None]

        if k == 'acct_sub':
            m.master += F(op[1]); m.mflow += abs(F(op[1]))
        elif k == 'acct_wd':
            m.master -= F(op[1]); m.mflow += abs(F(op[1]))
        elif k == 'create':
            m.ports[str(op[1])] = MPort()
        elif k == 'p_sub':
            mp = m.ports[op[1]]
            m.master -= F(op[2]); mp.cash += F(op[2])
            m.mflow += abs(F(op[2])); mp.flow += abs(F(op[2]))
            mp.hist.append({'type': 'subscription', 'amount': F(op[2]), 'cash': mp.cash,
                            'dt': str(self.broker.current_dt)})
        elif k == 'p_wd':
            mp = m.ports[op[1]]
            m.master += F(op[2]); mp.cash -= F(op[2])
            m.mflow += abs(F(op[2])); mp.flow += abs(F(op[2]))
            mp.hist.append({'type': 'withdrawal', 'amount': F(op[2]), 'cash': mp.cash,
                            'dt': str(self.broker.current_dt)})
        elif k == 'order':
            mp = m.ports[op[1]]
            rec = {'order_id': op[4], 'asset': op[2], 'qty': op[3], 'pid': op[1],
                   'submit_idx': self.opidx, 'submit_cell': hours_cell(self.broker.current_dt),
                   'waited_closed': 0}
            mp.pending.append(rec)
            self.orders[op[4]] = rec
        elif k == 'update':
            self.model_update(ts(op[1]), delivered)
        elif k == 'exec':
            t = ts(op[3])
            if op[1] in m.ports:
                # expand into (submit, update) pairs exactly as documented
                batches = []
                for a, q, oid in op[2]:
                    rec = {'order_id': oid, 'asset': a, 'qty': q, 'pid': op[1],
                           'submit_idx': self.opidx, 'submit_cell': hours_cell(t),
                           'waited_closed': 0}
                    self.orders[oid] = rec
                    batches.append(rec)
                self.model_exec(t, op[1], batches, delivered)
        elif k == 'pf_mark':
            mp = m.ports[op[1]]
            if op[2] in mp.pos and mp.pos[op[2]].net != 0:
                mp.pos[op[2]].last = op[3]
        elif k == 'pf_sub':
            mp = m.ports[op[1]]
            mp.cash += F(op[3]); mp.flow += abs(F(op[3]))
            mp.hist.append({'type': 'subscription', 'amount': F(op[3]), 'cash': mp.cash, 'dt': str(ts(op[2]))})
        elif k == 'pf_wd':
            mp = m.ports[op[1]]
            mp.cash -= F(op[3]); mp.flow += abs(F(op[3]))
            mp.hist.append({'type': 'withdrawal', 'amount': F(op[3]), 'cash': mp.cash, 'dt': str(ts(op[2]))})
        elif k == 'pf_txn':
            self.last_batch = []
            if len(delivered) == 1:
                # the harness made this transaction itself: the ledger books what it put in (quantity, price, commission),
                # not what the transaction object says afterwards
                delivered[0] = dict(delivered[0], qty=op[4], price=op[5], commission=(op[6] if len(op) > 6 else 0.0))
            self.settle_batch(ts(op[2]), [], delivered, partial=True)
        # quote / getters: nothing

        if k not in ('update', 'exec', 'pf_txn') and delivered:
            for prop in ('C04', 'C01'):
                if prop in A:
                    self.viol(prop, 'fill-outside-update/%s' % k,
                              'request %r delivered %d transaction(s) to a portfolio' % (op, len(delivered)),
                              delivered=delivered)

        if 'C01' in A and k in ('update', 'exec'):
            from collections import Counter
            due = Counter((r['pid'], r['order_id']) for r in self.last_batch)
            seen = Counter()
            for d in delivered:
                seen[(d['pid'], d['order_id'])] += 1
                if seen[(d['pid'], d['order_id'])] > due.get((d['pid'], d['order_id']), 0):
                    owners = sorted(r['pid'] for r in self.last_batch if r['order_id'] == d['order_id'])
                    self.viol('C01', 'fill-booked-in-wrong-portfolio',
                              'portfolio %s was debited for a fill of %s x %s (order %s) that was never submitted to it; '
                              'the order belongs to %s' % (d['pid'], d['qty'], d['asset'], d['order_id'], owners),
                              delivered=delivered)
        if 'C01' in A:
            self.check_c01(op, before, after, delivered)
        if 'C02' in A:
            self.check_c02(op, after)
        if 'C03' in A:
            self.check_c03(op, before, after)
        if 'C04' in A:
            self.check_c04(op, before, after, delivered)
        if 'C05' in A and k in ('update', 'exec'):
            self.finish_update_c05(op, before, after)
        if delivered:
            self.flags.add('fill')
        if k == 'p_sub':
            self.flags.add('transfer-in')
        if k == 'p_wd':
            self.flags.add('transfer-out')

    # .. model of update ........................................................

    def expected_fill(self, t, rec):
        """Independent expectation for one order filled at time t (C05)."""
        bid, ask = self.book.q[rec['asset']]
        price = ask if rec['qty'] > 0 else bid
        exact = F(price) * rec['qty']
        cands = core.round_candidates(exact)
        c, x = self.rates
        comms = {n: c * abs(n) + x * abs(n) for n in cands}
        return price, exact, comms

    def model_update(self, t, delivered):
        m = self.model
        # marks
        for pid, mp in m.ports.items():
            for a, p in mp.pos.items():
                if p.net != 0:
                    bid, ask = self.book.q[a]
                    p.last = (bid + ask) / 2.0
        batch = []
        if in_hours(t):
            for pid, mp in m.ports.items():
                batch.extend(mp.pending)
                mp.pending = []
        else:
            for mp in m.ports.values():
                for rec in mp.pending:
                    rec['waited_closed'] += 1
        self.settle_batch(t, batch, delivered)

    def model_exec(self, t, pid, recs, delivered):
        """ExecutionHandler: for each order submit it, then broker.update(t)."""
        m = self.model
        dl = list(delivered)
        all_expected = []
        for rec in recs:
            m.ports[pid].pending.append(rec)
            for mp2 in m.ports.values():
                for a, p in mp2.pos.items():
                    if p.net != 0:
                        bid, ask = self.book.q[a]
                        p.last = (bid + ask) / 2.0
            if in_hours(t):
                batch = []
                for mp2 in m.ports.values():
                    batch.extend(mp2.pending)
                    mp2.pending = []
                n = len(batch)
                self.settle_batch(t, batch, dl[:n], partial=True)
                all_expected.extend(batch)
                dl = dl[n:]
            else:
                for mp2 in m.ports.values():
                    for r in mp2.pending:
                        r['waited_closed'] += 1
        if dl:
            # more transactions than due orders: settle them so that C01 stays exact
            self.settle_batch(t, [], dl, partial=True)
        self.last_batch = all_expected
        self.last_delivered = list(delivered)

    def settle_batch(self, t, batch, delivered, partial=False):
        """
        Apply the delivered transactions to the model (cash, positions,
        expected history) and remember the expected batch for C04/C05.
        """
        m = self.model
        if not partial:
            self.last_batch = list(batch)
            self.last_delivered = list(delivered)
        for d in delivered:
            mp = m.ports.get(d['pid'])
            if mp is None:
                continue
            rec_ = self.orders.get(d['order_id'])
            if rec_ is not None and rec_.get('pid') == d['pid'] and rec_['asset'] != d['asset'] and rec_['qty'] == d['qty']:
                self.viol(sorted(self.active)[0], 'fill-in-another-asset', 'order %s of %s x %s in %s was booked as a fill in %s'
                          % (d['order_id'], rec_['qty'], rec_['asset'], d['pid'], d['asset']))
            cost = F(d['price']) * F(d['qty']) + F(d['commission'])
            mp.cash -= cost
            mp.flow += abs(F(d['price']) * F(d['qty'])) + abs(F(d['commission']))
            pos = mp.pos.setdefault(d['asset'], MPos())
            if pos.net == 0:
                # new epoch
                pos.bq = pos.sq = 0
                pos.bpq = pos.spq = pos.bc = pos.sc = Fraction(0)
                pos.nfills = 0
            q = F(d['qty'])
            q = int(q) if q.denominator == 1 else q
            if q > 0:
                pos.bq += q; pos.bpq += F(d['price']) * q; pos.bc += F(d['commission'])
            else:
                pos.sq += -q; pos.spq += F(d['price']) * (-q); pos.sc += F(d['commission'])
            pos.nfills += 1
            sb = (pos.net > 0) - (pos.net < 0)
            pos.net += q
            sa = (pos.net > 0) - (pos.net < 0)
            self.acc.see('sign_transitions', '%+d->%+d' % (sb, sa))
            if sa == 0:
                self.flags.add('closed-to-zero')
            if sb == 0 and pos.nfills == 1 and 'closed-to-zero' in self.flags:
                self.flags.add('reopened')
            if sb * sa == -1:
                self.flags.add('flip')
            if pos.bq and pos.sq and pos.bc and pos.sc:
                self.flags.add('two-sided-commission')
            pos.last = d['price']
            mp.hist.append({'type': 'asset_transaction', 'amount': cost, 'cash': mp.cash,
                            'dt': str(d['dt']), 'txn': d})
            self.fills_seen[(d['pid'], d['order_id'])] = self.fills_seen.get((d['pid'], d['order_id']), 0) + 1
        if 'C05' in self.active:
            self.check_c05(t, batch, delivered)

    # .. C01 ....................................................................

    def check_c01(self, op, before, after, delivered):
        m = self.model
        acc = self.acc
        k = op[0]
        # (1) balances equal the shadow ledger
        am = after['master']
        base = getattr(self, 'ccy', 'USD')
        if self.broker is not None and not close(am[base], m.master, m.mflow):
            self.viol('C01', 'master-cash/%s' % k,
                      'master cash (%s) %r differs from ledger %s after %r' % (base, am[base], float(m.master), op),
                      ledger=float(m.master))
        for ccy in ('USD', 'GBP', 'EUR'):
            if ccy == base:
                continue
            if self.broker is not None and am.get(ccy) != 0.0:
                self.viol('C01', 'other-currency/%s' % k, 'balance in %s moved: %r' % (ccy, am.get(ccy)))
        acc.count('C01:balance_checks', 1 + len(m.ports))
        if set(after['ports']) != set(m.ports):
            self.viol('C01', 'portfolio-set/%s' % k, 'portfolios %s, expected %s'
                      % (sorted(after['ports']), sorted(m.ports)))
        for pid, mp in m.ports.items():
            got = after['ports'][pid]['cash']
            if not close(got, mp.cash, mp.flow):
                self.viol('C01', 'portfolio-cash/%s' % k,
                          'portfolio %s cash %r differs from ledger %.6f after %r (transfers and fills so far)'
                          % (pid, got, float(mp.cash), op), ledger=float(mp.cash),
                          delivered=delivered)
        # (2) zero-sum transfers, on the floats themselves
        if k in ('p_sub', 'p_wd'):
            dm = F(after['master'][base]) - F(before['master'][base])
            dp = F(after['ports'][op[1]]['cash']) - F(before['ports'][op[1]]['cash'])
            # the two deltas are differences of floats: each carries the rounding of its own balance
            mp_ = m.ports[op[1]]
            scale = (m.mflow + mp_.flow + abs(F(before['master'][base])) + abs(F(before['ports'][op[1]]['cash']))
                     + abs(F(after['ports'][op[1]]['cash'])) + 1)
            if abs(dm + dp) > Fraction(core.REL) * scale:
                self.viol('C01', 'transfer-not-zero-sum/%s' % k,
                          'transfer %r moved master by %s and portfolio by %s'
                          % (op, float(dm), float(dp)))
            for pid in m.ports:
                if pid != op[1] and F(after['ports'][pid]['cash']) != F(before['ports'][pid]['cash']):
                    self.viol('C01', 'bystander-cash/%s' % k, 'portfolio %s cash changed by %r' % (pid, op))
            acc.count('C01:zero_sum_checks')
        # (3) nothing else changes a balance (value level; write log is evidence)
        if k in ('order', 'quote', 'create') or k in GETTER_FAULTS or k.startswith('get_') or k == 'new_broker' or k == 'pf_mark':
            if k == 'create':
                before = dict(before, ports=dict(before['ports']))
            if self.canon(before)['master'] != self.canon(after)['master']:
                self.viol('C01', 'unexpected-cash-change/%s' % k, 'master cash changed by %r' % (op,))
            for pid in before['ports']:
                if F(before['ports'][pid]['cash']) != F(after['ports'][pid]['cash']):
                    self.viol('C01', 'unexpected-cash-change/%s' % k,
                              'portfolio %s cash changed by %r' % (pid, op))
            acc.count('C01:no_change_checks')
        if k in ('update', 'exec'):
            if self.canon(before)['master'] != self.canon(after)['master']:
                self.viol('C01', 'unexpected-cash-change/%s' % k, 'master cash changed by %r' % (op,))
            touched = {d['pid'] for d in delivered}
            for pid in before['ports']:
                if pid not in touched and F(before['ports'][pid]['cash']) != F(after['ports'][pid]['cash']):
                    self.viol('C01', 'unexpected-cash-change/%s' % k,
                              'portfolio %s cash changed by %r without any fill' % (pid, op))
        # (4) account-level aggregates
        b = self.broker
        for name, per in (('get_account_total_equity', 'eq'), ('get_account_total_market_value', 'mv')) if b is not None else ():
            try:
                d = getattr(b, name)()
            except Exception as e:
                self.viol('C01', 'aggregate-raises/%s/%s' % (name, type(e).__name__),
                          '%s() raised %r with portfolios %s' % (name, e, sorted(m.ports)))
            if set(d) != set(m.ports) | {'master'}:
                self.viol('C01', 'aggregate-keys/%s' % name, '%s() keys %s' % (name, sorted(d)))
            tot = Fraction(0)
            sc = Fraction(1)
            for pid in m.ports:
                if F(d[pid]) != F(after['ports'][pid][per]):
                    self.viol('C01', 'aggregate-entry/%s' % name,
                              '%s()[%s]=%r but per-portfolio getter says %r'
                              % (name, pid, d[pid], after['ports'][pid][per]))
                tot += F(d[pid]); sc += abs(F(d[pid]))
            if not close(d['master'], tot, sc):
                self.viol('C01', 'aggregate-sum/%s' % name,
                          '%s()["master"]=%r, sum of portfolios=%r' % (name, d['master'], float(tot)))
            acc.count('C01:aggregate_checks')
        # (5) history
        for pid, mp in m.ports.items():
            hb = before['ports'].get(pid, {'hist': []})['hist']
            ha = after['ports'][pid]['hist']
            if ha[:len(hb)] != hb:
                self.viol('C01', 'history-not-append-only/%s' % k,
                          'history of %s was rewritten by %r' % (pid, op))
            if len(ha) != len(mp.hist):
                self.viol('C01', 'history-length/%s' % k,
                          'history of %s has %d events, ledger has %d movements after %r'
                          % (pid, len(ha), len(mp.hist), op),
                          tail=ha[-3:])
            for i in range(len(hb), len(ha)):
                self.check_hist_event(pid, i, ha[i], mp.hist[i], mp)
        if k in ('update', 'exec', 'p_sub', 'p_wd', 'pf_txn', 'pf_sub', 'pf_wd') and (self.opidx % 7 == 0 or len(delivered) > 1):
            self.check_history_df()

    def check_hist_event(self, pid, i, got, exp, mp):
        dt, typ, desc, debit, credit, bal = got
        self.acc.count('C01:history_events_checked')
        if typ != exp['type']:
            self.viol('C01', 'history-type', 'event %d of %s is %r, expected %r' % (i, pid, typ, exp['type']))
        if dt != exp['dt']:
            self.viol('C01', 'history-time', 'event %d of %s stamped %s, movement happened at %s'
                      % (i, pid, dt, exp['dt']))
        amount = exp['amount']
        tol = Fraction(5, 1000) + Fraction(core.REL) * (mp.flow + 1)
        if typ == 'subscription':
            net = F(credit) - F(debit)
        else:
            net = F(debit) - F(credit)
        if abs(net - amount) > tol:
            self.viol('C01', 'history-amount/%s' % typ,
                      'event %d of %s: debit=%r credit=%r, true amount %.6f' % (i, pid, debit, credit, float(amount)),
                      event=got)
        if typ == 'subscription' and debit != 0.0 or typ == 'withdrawal' and credit != 0.0:
            self.viol('C01', 'history-side/%s' % typ, 'event %d of %s on the wrong side: %r' % (i, pid, got))
        if typ == 'asset_transaction':
            q = exp['txn']['qty']
            if (q > 0 and credit != 0.0) or (q < 0 and debit != 0.0):
                self.viol('C01', 'history-side/asset_transaction',
                          'event %d of %s on the wrong side: %r' % (i, pid, got))
            parts = desc.split(' ')
            ok = len(parts) == 5
            if ok:
                try:
                    ok = (parts[0] == ('LONG' if q > 0 else 'SHORT')
                          and float(parts[1]) == q
                          and parts[2] == exp['txn']['asset'].upper()
                          and abs(float(parts[3]) - exp['txn']['price']) <= 0.005 + 1e-9 * abs(exp['txn']['price'])
                          and parts[4] == exp['txn']['dt'].strftime('%d/%m/%Y'))
                except Exception:
                    ok = False
            if not ok:
                self.viol('C01', 'history-description', 'event %d of %s described as %r for fill %r'
                          % (i, pid, desc, exp['txn']))
        for v, nm in ((debit, 'debit'), (credit, 'credit'), (bal, 'balance')):
            if not is_cents(v):
                self.viol('C01', 'history-not-cents/%s' % nm, 'event %d of %s has %s=%r' % (i, pid, nm, v))
        if abs(F(bal) - exp['cash']) > tol:
            self.viol('C01', 'history-balance/%s' % typ,
                      'event %d of %s: balance=%r, true running cash %.6f' % (i, pid, bal, float(exp['cash'])),
                      event=got)

    def check_history_df(self):
        for pid, p in self.portfolios().items():
            try:
                df = p.history_to_df()
            except Exception as e:
                self.viol('C01', 'history-df-raises', 'history_to_df() raised %r' % (e,))
            rows = [tuple(r) for r in df[['type', 'description', 'debit', 'credit', 'balance']].itertuples(index=False)]
            want = [(e.type, e.description, e.debit, e.credit, e.balance) for e in p.history]
            if rows != want:
                self.viol('C01', 'history-df-rows', 'history_to_df() rows differ from history of %s' % pid,
                          rows=rows[-3:], want=want[-3:])
            self.acc.count('C01:history_df_checks')

    # .. C02 ....................................................................

    def check_c02(self, op, after):
        acc = self.acc
        for pid, mp in self.model.ports.items():
            got = after['ports'][pid]
            want_keys = {a for a, p in mp.pos.items() if p.net != 0}
            if set(got['hold']) != want_keys:
                self.viol('C02', 'holdings-keys/%s' % op[0],
                          'portfolio %s reports %s, net non-zero assets are %s after %r'
                          % (pid, sorted(got['hold']), sorted(want_keys), op),
                          nets={a: p.net for a, p in mp.pos.items()})
            tot = Fraction(0)
            sc = Fraction(0)
            for a in want_keys:
                p = mp.pos[a]
                h = got['hold'][a]
                if not {'quantity', 'market_value', 'unrealised_pnl', 'realised_pnl', 'total_pnl'} <= set(h):
                    self.viol('C02', 'holdings-entry-incomplete', 'the report entry of %s in %s is %s (the caller had emptied the '
                              'entries of a report it obtained EARLIER - its own copy)' % (a, pid, h))
                if h['quantity'] != p.net:
                    self.viol('C02', 'quantity/%s' % op[0],
                              '%s %s quantity %r, signed sum of fills %d' % (pid, a, h['quantity'], p.net))
                want_mv = F(p.last) * p.net
                if not close(h['market_value'], want_mv, abs(want_mv), rel=1e-12):
                    self.viol('C02', 'market-value/%s' % op[0],
                              '%s %s market value %r, quantity %d x latest price %r = %r'
                              % (pid, a, h['market_value'], p.net, p.last, float(want_mv)))
                tot += want_mv; sc += abs(want_mv)
                acc.count('C02:position_checks')
                sgn = 'long' if p.net > 0 else 'short'
                acc.see('C02:states', sgn)
            if not close(got['mv'], tot, sc):
                self.viol('C02', 'total-market-value/%s' % op[0],
                          '%s total market value %r, sum over holdings %r' % (pid, got['mv'], float(tot)))
            want_eq = F(got['cash']) + tot
            if not close(got['eq'], want_eq, sc + abs(F(got['cash']))):
                self.viol('C02', 'equity/%s' % op[0],
                          '%s equity %r != cash %r + market value %r' % (pid, got['eq'], got['cash'], float(tot)))
            acc.count('C02:portfolio_checks')

    # .. C03 ....................................................................

    def check_c03(self, op, before, after):
        acc = self.acc
        for pid, mp in self.model.ports.items():
            got = after['ports'][pid]
            tr = tu = tt = Fraction(0)
            tsc = Fraction(0)
            for a, h in got['hold'].items():
                p = mp.pos.get(a)
                if p is None or p.net == 0:
                    continue
                mv = F(p.last) * p.net
                scale = p.bpq + p.spq + abs(mv) + p.bc + p.sc + 1
                tsc += scale
                total = mv - (p.bpq - p.spq) - (p.bc + p.sc)
                if p.net > 0:
                    avg = (p.bpq + p.bc) / p.bq
                else:
                    avg = (p.spq - p.sc) / p.sq
                unreal = (F(p.last) - avg) * p.net
                real = total - unreal
                if not close(h['total_pnl'], total, scale):
                    self.viol('C03', 'total-pnl', '%s %s total P&L %r, market value - cost of fills - commissions = %r'
                              % (pid, a, h['total_pnl'], float(total)), fills=p.nfills)
                if not close(h['unrealised_pnl'], unreal, scale):
                    self.viol('C03', 'unrealised-pnl', '%s %s unrealised P&L %r, (price - avg cost) x net = %r'
                              % (pid, a, h['unrealised_pnl'], float(unreal)))
                if not close(F(h['realised_pnl']) + F(h['unrealised_pnl']), F(h['total_pnl']), scale):
                    self.viol('C03', 'split', '%s %s realised %r + unrealised %r != total %r'
                              % (pid, a, h['realised_pnl'], h['unrealised_pnl'], h['total_pnl']))
                if not close(h['realised_pnl'], real, scale):
                    self.viol('C03', 'realised-pnl', '%s %s realised P&L %r, expected %r'
                              % (pid, a, h['realised_pnl'], float(real)))
                tr += real; tu += unreal; tt += total
                acc.count('C03:position_identity_checks')
                if p.bq and p.sq and p.bc and p.sc:
                    acc.count('C03:two_sided_with_commission')
            pt, pr, pu = got['pnl']
            for nm, g, w in (('total', pt, tt), ('realised', pr, tr), ('unrealised', pu, tu)):
                if not close(g, w, tsc):
                    self.viol('C03', 'portfolio-%s-pnl' % nm, '%s portfolio %s P&L %r, sum over positions %r'
                              % (pid, nm, g, float(w)))
            # re-mark leaves realised P&L and quantity untouched
            if op[0] in ('update', 'pf_mark') and pid in before['ports']:
                filled_assets = {d['asset'] for d in _Instr.txns if d['pid'] == pid}
                for a, h in got['hold'].items():
                    hb = before['ports'][pid]['hold'].get(a)
                    if hb is None or a in filled_assets:
                        continue
                    if float(hb['realised_pnl']).hex() != float(h['realised_pnl']).hex() \
                            or hb['quantity'] != h['quantity']:
                        self.viol('C03', 'remark-changed-realised',
                                  're-marking %s %s changed realised P&L %r -> %r or quantity %r -> %r'
                                  % (pid, a, hb['realised_pnl'], h['realised_pnl'], hb['quantity'], h['quantity']))
                    acc.count('C03:remark_checks')

    # .. C04 ....................................................................

    def check_c04(self, op, before, after, delivered):
        acc = self.acc
        k = op[0]
        m = self.model
        # pending queues hold exactly the unfilled orders, in submission order
        for pid, mp in m.ports.items():
            want = [r['order_id'] for r in mp.pending]
            if after['ports'][pid]['pend'] != want:
                self.viol('C04', 'pending-queue/%s' % k,
                          'pending orders of %s are %s, expected %s after %r'
                          % (pid, after['ports'][pid]['pend'], want, op))
            acc.count('C04:queue_checks')
        if k == 'order':
            # submitting alone changes nothing but the queue
            cb, ca = self.canon(before), self.canon(after)
            for pid in cb['ports']:
                cb['ports'][pid]['pend'] = ca['ports'][pid]['pend'] = None
            if cb != ca:
                self.viol('C04', 'submit-changed-state', 'submit_order %r changed %s' % (op, diff_snap(cb, ca)[:5]))
            acc.count('C04:submit_checks')
            return
        if k not in ('update', 'exec'):
            return
        t = ts(op[1]) if k == 'update' else ts(op[3])
        cell = hours_cell(t)
        acc.see('C04:update_cells', cell)
        expected = list(self.last_batch) if (in_hours(t)) else []
        if not in_hours(t):
            if delivered:
                self.viol('C04', 'fill-outside-hours/%s' % cell,
                          'update at %s (%s) filled %d order(s)' % (t, cell, len(delivered)), delivered=delivered)
            # only re-marking may happen: cash, quantities, history, queues unchanged
            for pid in before['ports']:
                pb, pa = before['ports'][pid], after['ports'][pid]
                if F(pb['cash']) != F(pa['cash']) or pb['hist'] != pa['hist'] or \
                        {a: h['quantity'] for a, h in pb['hold'].items()} != {a: h['quantity'] for a, h in pa['hold'].items()}:
                    self.viol('C04', 'closed-update-changed-state/%s' % cell,
                              'update at %s (%s) changed cash/holdings/history of %s' % (t, cell, pid))
            acc.count('C04:closed_update_checks')
            if any(mp.pending for mp in m.ports.values()):
                acc.count('C04:closed_updates_with_pending')
            return
        # in hours: every pending order fills exactly once, in full, now
        exp_ids = [(r['pid'], r['order_id']) for r in expected]
        got_ids = [(d['pid'], d['order_id']) for d in delivered]
        if sorted(exp_ids) != sorted(got_ids):
            missing = sorted(set(exp_ids) - set(got_ids))
            extra = sorted(set(got_ids) - set(exp_ids))
            dup = sorted({i for i in got_ids if got_ids.count(i) > 1})
            kind = 'dropped' if missing else ('duplicate' if dup else 'unexpected')
            self.viol('C04', 'fill-%s/%s' % (kind, cell),
                      'update at %s: pending %s, filled %s (missing %s, extra %s, duplicated %s)'
                      % (t, exp_ids, got_ids, missing, extra, dup))
        byid = {(r['pid'], r['order_id']): r for r in expected}
        for d in delivered:
            r = byid[(d['pid'], d['order_id'])]
            if d['qty'] != r['qty'] or d['asset'] != r['asset'] or d['pid'] != r['pid']:
                self.viol('C04', 'fill-not-in-full', 'order %r filled as %r' % (r, d))
            if self.fills_seen.get((d['pid'], d['order_id']), 0) != 1:
                self.viol('C04', 'fill-twice', 'order %s of %s has now been filled %d times'
                          % (d['order_id'], d['pid'], self.fills_seen.get((d['pid'], d['order_id']))))
            acc.count('C04:fills_checked')
            acc.see('C04:fill_cells', 'submitted:%s filled:%s side:%s waited:%s' % (
                r['submit_cell'], cell, 'buy' if r['qty'] > 0 else 'sell', min(r['waited_closed'], 2)))
        # boundary view: the history of each portfolio gained exactly these fills
        for pid, mp in m.ports.items():
            hb = before['ports'].get(pid, {'hist': []})['hist']
            ha = after['ports'][pid]['hist']
            new = ha[len(hb):]
            mine = [r for r in expected if r['pid'] == pid]
            if len(new) != len(mine):
                self.viol('C04', 'history-fill-count', 'history of %s gained %d events for %d due orders'
                          % (pid, len(new), len(mine)))
            qs_hist = []
            for e in new:
                parts = e[2].split(' ')
                try:
                    qs_hist.append(float(parts[1]))
                except Exception:
                    qs_hist.append(None)
                if e[0] != str(t):
                    self.viol('C04', 'history-fill-time', 'fill event %r not stamped with update time %s' % (e, t))
            if k == 'update':
                sells = [r['qty'] for r in mine if r['qty'] < 0]
                buys = [r['qty'] for r in mine if r['qty'] > 0]
                want = sells + buys
                if qs_hist != [float(q) for q in want]:
                    key = 'order-of-fills/' + ('sells-first' if [q for q in qs_hist if q and q < 0] + [q for q in qs_hist if q and q > 0] != qs_hist else 'submission-order')
                    self.viol('C04', key,
                              'portfolio %s: fills appear as %s, expected sells then buys in submission order %s'
                              % (pid, qs_hist, want))
                if sells and buys:
                    acc.count('C04:mixed_side_batches')
                    self.flags.add('mixed-batch')
                if any(r['waited_closed'] for r in mine):
                    self.flags.add('waited')
                if len(sells) > 1 or len(buys) > 1:
                    acc.count('C04:same_side_multi_batches')
            acc.count('C04:batch_order_checks')
        # the holdings of every portfolio moved by exactly what was filled in it
        for pid in m.ports:
            if pid not in before['ports']:
                continue
            hb, ha = before['ports'][pid]['hold'], after['ports'][pid]['hold']
            for a in set(hb) | set(ha) | {d['asset'] for d in delivered if d['pid'] == pid}:
                moved = F(ha.get(a, {'quantity': 0})['quantity']) - F(hb.get(a, {'quantity': 0})['quantity'])
                filled = sum(F(d['qty']) for d in delivered if d['pid'] == pid and d['asset'] == a)
                if moved != filled:
                    self.viol('C04', 'holding-moved-by-other-than-fill', 'holding of %s in %s moved by %s while orders for %s were filled '
                              'in this update' % (a, pid, float(moved), float(filled)))
        acc.count('C04:holding_delta_checks')
        # account-wide: every sell of the update is executed before any buy (sequence of delivered transactions)
        if k == 'update':
            seq = [d['qty'] for d in delivered]
            if any(q > 0 for q in seq) and any(q < 0 for q in seq):
                first_buy = min(i for i, q in enumerate(seq) if q > 0)
                last_sell = max(i for i, q in enumerate(seq) if q < 0)
                if last_sell > first_buy:
                    self.viol('C04', 'order-of-fills/sells-first-across-portfolios',
                              'within one update a buy (%s of %s) was executed before a sell (%s of %s)'
                              % (delivered[first_buy]['qty'], delivered[first_buy]['pid'], delivered[last_sell]['qty'], delivered[last_sell]['pid']))
                acc.count('C04:account_wide_order_checks')
        # second source: the delivered transactions, same rule per portfolio
        if k == 'update':
            for pid in m.ports:
                seq = [d['qty'] for d in delivered if d['pid'] == pid]
                mine = [r for r in expected if r['pid'] == pid]
                want = [r['qty'] for r in mine if r['qty'] < 0] + [r['qty'] for r in mine if r['qty'] > 0]
                if seq != want:
                    self.viol('C04', 'order-of-fills/delivered',
                              'portfolio %s: transactions delivered as %s, expected %s' % (pid, seq, want))

    # .. C05 ....................................................................

    def check_c05(self, t, batch, delivered):
        acc = self.acc
        byid = {(r['pid'], r['order_id']): r for r in batch}
        c, x = self.rates
        for d in delivered:
            r = byid.get((d['pid'], d['order_id']))
            if r is None:
                continue
            price, exact, comms = self.expected_fill(t, r)
            side = 'buy' if r['qty'] > 0 else 'sell'
            if d['dt'] != t:
                self.viol('C05', 'fill-time/%s' % side, 'fill of %r stamped %s, update time %s' % (r, d['dt'], t))
            if float(d['price']).hex() != float(price).hex():
                bid, ask = self.book.q[r['asset']]
                what = ('the bid' if d['price'] == bid else 'the ask' if d['price'] == ask
                        else 'the mid' if d['price'] == (bid + ask) / 2.0 else 'not a quote of this instant')
                self.viol('C05', 'fill-price/%s' % side,
                          '%s of %s filled at %r which is %s; quote at %s is bid=%r ask=%r'
                          % (side, r['asset'], d['price'], what, t, bid, ask))
            comm = d['commission']
            if comm < 0:
                self.viol('C05', 'negative-commission/%s' % side, 'commission %r on %r' % (comm, r))
            ok = any(close(comm, w, abs(w), rel=1e-12) for w in comms.values())
            if len(comms) > 1:
                acc.count('ambiguous_boundary')
            if not ok:
                self.viol('C05', 'commission/%s/%s' % (self.cfg['fee'][0], side),
                          'commission %r on %s %r @ %r; fee model on consideration %s gives %s'
                          % (comm, side, r['qty'], price, sorted(comms), [float(w) for w in comms.values()]))
            acc.count('C05:fills_checked')
            acc.see('C05:cells', '%s/%s' % (self.cfg['fee'][0], side))
            if self.cfg['fee'][0] == 'pct' and (c + x) > 0:
                self.flags.add('c05-' + side)
        # the commission as the portfolio's ledger shows it: debit - price x quantity for a buy, proceeds - credit for a sale
        for pid in sorted({d['pid'] for d in delivered}):
            mine = [d for d in delivered if d['pid'] == pid]
            hist = self.broker.portfolios[pid].history
            used = set()
            for d in mine:
                if (pid, d['order_id']) not in byid:
                    continue
                r = byid[(pid, d['order_id'])]
                ev = None
                for k_ in range(len(hist) - 1, max(-1, len(hist) - 40), -1):
                    e_ = hist[k_]
                    if k_ in used or e_.type != 'asset_transaction' or e_.dt != d['dt']:
                        continue
                    tok = e_.description.split(' ')
                    try:
                        same_fill = (float(tok[1]) == float(d['qty']) and tok[2] == d['asset'].upper()
                                     and tok[3] == '%0.2f' % d['price'])       # (the description upper-cases the symbol)
                    except (ValueError, IndexError):
                        same_fill = False
                    if same_fill:
                        ev = e_
                        used.add(k_)
                        break
                if ev is None or r['qty'] != d['qty'] or r['asset'] != d['asset']:
                    continue
                price, exact, comms = self.expected_fill(t, r)
                implied = (F(ev.debit) - exact) if r['qty'] > 0 else (-exact - F(ev.credit))
                if (r['qty'] > 0 and ev.credit != 0) or (r['qty'] < 0 and ev.debit != 0):
                    continue        # the side of the entry is C01's subject
                if not any(abs(implied - w) <= Fraction(51, 10000) + abs(w) * Fraction(1, 10 ** 9) for w in comms.values()):
                    side = 'buy' if r['qty'] > 0 else 'sell'
                    self.viol('C05', 'ledger-commission/%s' % side, 'the history entry of the %s of %r %s @ %r shows debit %r credit %r, '
                              'i.e. a commission of %r; the fee model gives %s' % (side, r['qty'], r['asset'], float(price), ev.debit,
                                                                                  ev.credit, float(implied), [float(w) for w in comms.values()]))
                acc.count('C05:ledger_commissions_checked')

    def finish_update_c05(self, op, before, after):
        t = ts(op[1]) if op[0] == 'update' else ts(op[3])
        if not in_hours(t):
            return
        c, x = self.rates
        per = {}
        scale = {}
        ambiguous = False
        for r in self.last_batch:
            price, exact, comms = self.expected_fill(t, r)
            if len(comms) > 1:
                ambiguous = True
            n = min(comms)
            per[r['pid']] = per.get(r['pid'], Fraction(0)) + exact + comms[n]
            scale[r['pid']] = scale.get(r['pid'], Fraction(0)) + abs(exact) + comms[n]
        for pid, want in per.items():
            if pid not in before['ports']:
                continue
            got = F(after['ports'][pid]['cash']) - F(before['ports'][pid]['cash'])
            tol = Fraction(core.REL) * (scale[pid] + abs(F(before['ports'][pid]['cash'])) + 1)
            if ambiguous:
                tol += (c + x) * len(self.last_batch)
            if abs(got + want) > tol:
                self.viol('C05', 'cash-delta',
                          'cash of %s moved by %r over update at %s; fills at the quoted bid/ask with fee-model '
                          'commission cost %r' % (pid, float(got), t, float(want)),
                          batch=self.last_batch)
            self.acc.count('C05:cash_delta_checks')


def diff_snap(a, b):
    out = []
    for k in a['master']:
        if a['master'][k] != b['master'].get(k):
            out.append('master-cash: %s %s -> %s' % (k, a['master'][k], b['master'].get(k)))
    if set(a['ports']) != set(b['ports']):
        out.append('portfolios: %s -> %s' % (sorted(a['ports']), sorted(b['ports'])))
    for pid in a['ports']:
        if pid not in b['ports']:
            continue
        pa, pb = a['ports'][pid], b['ports'][pid]
        if pa['cash'] != pb['cash']:
            out.append('portfolio-cash: %s %s -> %s' % (pid, pa['cash'], pb['cash']))
        if pa['hold'] != pb['hold']:
            for asset in sorted(set(pa['hold']) | set(pb['hold'])):
                if pa['hold'].get(asset) != pb['hold'].get(asset):
                    out.append('holdings: %s %s %s -> %s' % (pid, asset, pa['hold'].get(asset), pb['hold'].get(asset)))
        elif pa['mv'] != pb['mv'] or pa['eq'] != pb['eq']:
            out.append('holdings: %s totals changed' % pid)
        if pa['pend'] != pb['pend']:
            out.append('pending-orders: %s %s -> %s' % (pid, pa['pend'], pb['pend']))
        if pa['hist'] != pb['hist']:
            out.append('history: %s %d -> %d events' % (pid, len(pa['hist']), len(pb['hist'])))
        if pa.get('marks') != pb.get('marks'):
            for asset in sorted(set(pa.get('marks', {})) | set(pb.get('marks', {}))):
                if pa.get('marks', {}).get(asset) != pb.get('marks', {}).get(asset):
                    out.append('holding-mark: %s %s %s -> %s' % (pid, asset, pa.get('marks', {}).get(asset), pb.get('marks', {}).get(asset)))
    return out


# ---------------------------------------------------------------------------
# Portfolio-level scenarios (no broker): W-LADDER and portfolio-level faults
# ---------------------------------------------------------------------------

class PortfolioScenario(Scenario):
    """Drives one real Portfolio object directly; reuses the same monitors."""

    def __init__(self, cfg, active, acc):
        install()
        from qstrader.broker.portfolio.portfolio import Portfolio
        self.cfg = cfg
        self.active = set(active)
        self.acc = acc
        self.broker = None
        self.book = None
        self.rates = (Fraction(0), Fraction(0))
        self.t = ts(cfg['start'])
        self.pf = Portfolio(self.t, starting_cash=cfg.get('starting_cash', 0.0), portfolio_id='P')
        self.model = Model(0)
        mp = MPort()
        sc = cfg.get('starting_cash', 0.0)
        mp.cash = F(sc)
        mp.flow = abs(F(sc))
        if sc > 0:
            mp.hist.append({'type': 'subscription', 'amount': F(sc), 'cash': F(sc), 'dt': str(self.t)})
        self.model.ports['P'] = mp
        self.orders = {}
        self.fills_seen = {}
        self.opidx = -1
        self.ops_done = []
        self.flags = set()
        self.last_batch = []
        self.snap = self.snapshot()

    def portfolios(self):
        return {'P': self.pf}

    def snapshot(self):
        p = self.pf
        report = p.portfolio_to_dict()
        kept = {a: dict(d) for a, d in report.items()}
        handles = self.__dict__.setdefault('_handles', {'pos': {}, 'report': None, 'n': 0, 'map': p.pos_handler.positions})
        handles['n'] += 1
        now_ = p.pos_handler.positions
        if handles['map'] is not now_ and {a: x.net_quantity for a, x in handles['map'].items() if x.net_quantity != 0} != \
                {a: x.net_quantity for a, x in now_.items()}:
            self.viol(sorted(self.active)[0], 'stale-handle/positions', 'the holdings mapping obtained earlier shows %s, the portfolio holds %s'
                      % ({a: x.net_quantity for a, x in handles['map'].items()}, {a: x.net_quantity for a, x in now_.items()}))
        for a, x in now_.items():
            ox = handles['pos'].get(a)
            if ox is not None and ox is not x and ox.net_quantity != 0 and (
                    ox.net_quantity != x.net_quantity or ox.current_price != x.current_price or ox.total_pnl != x.total_pnl):
                self.viol(sorted(self.active)[0], 'stale-handle/position', 'the Position object obtained earlier for %s shows quantity %r, price %r, '
                          'total P&L %r; the portfolio\'s position %r / %r / %r' % (a, ox.net_quantity, ox.current_price, ox.total_pnl,
                                                                                   x.net_quantity, x.current_price, x.total_pnl))
            handles['pos'][a] = x
        for a in [a for a in handles['pos'] if a not in now_]:
            del handles['pos'][a]
        prev = handles['report']
        handles['report'] = None
        if prev is not None and prev[0] != prev[1]:
            self.viol(sorted(self.active)[0], 'report-changed-after-it-was-handed-out', 'a holdings report obtained earlier read %s when it was '
                      'returned and reads %s now' % (prev[1], prev[0]))
        if handles['n'] % 2:
            handles['report'] = (report, {a: dict(d) for a, d in report.items()})
        else:
            for d_ in report.values():
                d_.clear()
            report.clear()                  # the caller's copy, emptied by the caller
        return {'master': {'USD': 0.0, 'GBP': 0.0, 'EUR': 0.0}, 'ports': {'P': {
            'cash': p.cash,
            'hold': kept,
            'mv': p.total_market_value,
            'eq': p.total_equity,
            'pend': [],
            'hist': [(str(e.dt), e.type, e.description, e.debit, e.credit, e.balance) for e in p.history],
            'pnl': (p.total_pnl, p.total_realised_pnl, p.total_unrealised_pnl),
            'clock': p.current_dt,
            'marks': {a: (str(pos.current_dt), pos.current_price) for a, pos in p.pos_handler.positions.items()},
        }}}

    def classify(self, op):
        return self._classify_pf(op)


# ---------------------------------------------------------------------------
# generators
# ---------------------------------------------------------------------------

STARTS = ['1965-03-08 09:00:00', '1969-12-26 14:30:00',                      # before the Unix epoch as well
          '2019-03-04 09:00:00', '2019-03-04 14:30:00', '2019-03-02 12:00:00',
          '2020-02-28 20:59:59.999999', '2019-12-31 21:00:00', '2021-06-16 16:00:00',
          '2024-02-29 14:29:59.999999']
BOUNDARIES = [(14, 29, 59, 999999), (14, 30, 0, 0), (20, 59, 59, 999999), (21, 0, 0, 0),
              (0, 0, 0, 0), (17, 45, 0, 0), (23, 59, 0, 0)]


def rand_price(rng, used=None):
    for _ in range(50):
        dec = rng.choice([0, 1, 2, 2, 2, 4, 8])
        p = round(10 ** rng.uniform(-2, 3.7), dec)
        if rng.random() < 0.1:
            p = round(p) + 0.5
        if p < 0.01:
            p = 0.01
        if used is None or p not in used:
            if used is not None:
                used.add(p)
            return float(p)
    return float(p)


def rand_quote(rng, used):
    bid = rand_price(rng, used)
    for _ in range(50):
        sp = rng.choice([0.01, 0.02, 0.05, 0.5, 1.0, round(bid * rng.uniform(0.0001, 0.02), 4)])
        ask = round(bid + sp, 8)
        if ask != bid and ask not in used:
            used.add(ask)
            break
    if rng.random() < 0.08:
        bid, ask = ask, bid   # crossed market: bid != ask is all the property asks
    return [bid, ask]


def rand_amount(rng):
    r = rng.random()
    if r < 0.05:
        return 0.0
    if r < 0.12:
        return float(rng.choice([0.001, 0.004, 0.005, 0.009, 0.01, 0.015, 0.5]))
    mag = 10 ** rng.uniform(0, 7)
    return float(rng.choice([round(mag), round(mag, 2), mag]))


def next_time(rng, t):
    r = rng.random()
    if r < 0.04:
        return t + pd.Timedelta(nanoseconds=rng.choice([1, 250, 999]))      # pandas instants carry nanoseconds
    if r < 0.05:
        return t
    if r < 0.10:
        return t + pd.Timedelta(microseconds=1)
    if r < 0.35:
        return t + pd.Timedelta(minutes=rng.randint(1, 180))
    if r < 0.75:
        cands = []
        d0 = t.normalize()
        for dd in range(0, 5):
            for (h, mi, s, us) in BOUNDARIES:
                c = d0 + pd.Timedelta(days=dd, hours=h, minutes=mi, seconds=s, microseconds=us)
                if c >= t:
                    cands.append(c)
        cands.sort()
        return cands[min(len(cands) - 1, rng.choice([0, 0, 0, 1, 1, 2, 3, 5, 8]))]
    if r < 0.85:
        return t + pd.Timedelta(hours=rng.randint(20, 30))
    if r < 0.93:
        # into the weekend
        d = t.normalize() + pd.Timedelta(days=(5 - t.weekday()) % 7 + rng.choice([0, 1]))
        c = d + pd.Timedelta(hours=rng.choice([0, 14, 15, 21]), minutes=rng.choice([0, 30]))
        return c if c >= t else t + pd.Timedelta(days=1)
    return t + pd.Timedelta(days=rng.randint(2, 9), minutes=rng.randint(0, 600))


def make_cfg(rng):
    used = set()
    n_assets = rng.randint(1, 5)
    assets = (ODD_ASSETS if rng.random() < 0.2 else ASSETS)[:n_assets]
    fee_kind = rng.random()
    if fee_kind < 0.3:
        fee = ['zero']
    else:
        rate = lambda: rng.choice([0.0, 1e-4, 0.001, 0.005, 0.05, 0.3, 1.0, round(rng.random(), 6)])  # noqa
        fee = ['pct', rate(), rate()]
    return {
        'start': rng.choice(STARTS),
        'strict_warnings': rng.random() < 0.12,     # the application escalates warnings to errors (python -W error)
        'loud': rng.random() < 0.15,        # event printing left on (the library default), output discarded
        'currency_added_later': rng.random() < 0.1,
        'base_currency': rng.choice(['USD', 'USD', 'USD', 'GBP', 'EUR']),
        'initial_funds': rng.choice([0.0, 1e4, 1e6, 123456.78, rand_amount(rng)]),
        'fee': fee,
        'quotes': {a: rand_quote(rng, used) for a in assets},
        'assets': assets,
    }


class Gen(object):
    """Lock-step generator: chooses the next request from the live state."""

    def __init__(self, rng, sc, faults):
        self.rng = rng
        self.sc = sc
        self.faults = faults      # 'none' | 'benign' | 'all'
        self.used = set(v for q in sc.cfg['quotes'].values() for v in q)
        self.usedq = set()
        self.queue = []
        self.tmax = sc.t
        self.norder = 0
        self.ids_by_pid = {}
        self.idle = set()
        self.names = ['p1', 'p2', 'p3', 'p4']
        if rng.random() < 0.5:
            rng.shuffle(self.names)          # portfolios are not created in the alphabetical order of their ids
        if rng.random() < 0.12:
            self.names = ['p%1', '100%s', 'a b', "p'4"]      # ids are free text: per cent signs, blanks, quotes
        if rng.random() < 0.08:
            self.names = ['master']          # an account with ONE portfolio whose id equals the reports' total key

    def qty(self, pid=None, asset=None):
        rng = self.rng
        mp = self.sc.model.ports.get(pid)
        net = 0
        if mp and asset in mp.pos:
            net = mp.pos[asset].net
        r = rng.random()
        if net and abs(net) > 20 and rng.random() < 0.08:
            return -net + int(np.sign(net)) * rng.randint(1, 5)      # all but a few units
        if not net and rng.random() < 0.04:
            return rng.choice([1, -1]) * rng.randint(10 ** 5, 5 * 10 ** 6)     # a very large position
        if net and r < 0.2:
            return -net                                   # close to exactly zero
        if net and r < 0.35:
            return -net - int(np.sign(net)) * rng.randint(1, max(1, abs(net)))   # flip
        if net and r < 0.5 and abs(net) > 1:
            return -int(np.sign(net)) * rng.randint(1, abs(net) - 1)             # reduce
        for _ in range(30):
            q = max(1, int(10 ** rng.uniform(0, 5)))
            if q not in self.usedq:
                self.usedq.add(q)
                break
        return q if rng.random() < 0.55 else -q

    def oid(self, pid=None):
        ids = self.ids_by_pid.setdefault(pid, set())
        others = sorted(set().union(*[v for p, v in self.ids_by_pid.items() if p != pid] or [set()]) - ids)
        if pid is not None and others and self.rng.random() < 0.12:
            o = self.rng.choice(others)          # same id as an order of ANOTHER portfolio (never within one)
        else:
            self.norder += 1
            o = 'o%d' % self.norder
        ids.add(o)
        return o

    def next(self):
        if self.queue:
            return self.queue.pop(0)
        rng, sc = self.rng, self.sc
        b = sc.broker
        pids = list(sc.model.ports)
        if not pids or (len(pids) < len(self.names) and rng.random() < 0.06):
            if not pids and len(self.names) > 1 and rng.random() < 0.15:
                self.idle.add(self.names[0])     # the first portfolio stays cash-less and idle
                self.queue.append(['create', self.names[1]])
            return ['create', self.names[len(pids)]]
        if self.faults != 'none' and rng.random() < (0.22 if self.faults == 'all' else 0.06):
            f = self.fault()
            if f is not None:
                return f
        master = b.get_account_cash_balance(sc.ccy)
        r = rng.random()
        pid = rng.choice([p_ for p_ in pids if p_ not in self.idle] or pids)
        assets = sc.cfg['assets']
        if r < 0.06:
            return ['acct_sub', rand_amount(rng)]
        if r < 0.09:
            return ['acct_wd', float(master) * rng.choice([0.0, 0.1, 0.5, 1.0])]
        if r < 0.19:
            if master <= 0:
                return ['acct_sub', rand_amount(rng) + 1.0]
            short = b.get_portfolio_cash_balance(pid)
            if short < 0 and -short <= master and rng.random() < 0.5:
                return ['p_sub', pid, float(-short)]          # exactly the shortfall: the balance comes back to 0.0
            if rng.random() < 0.1:
                tiny = rng.choice([0.001, 0.004, 0.005, 0.009, 0.01, 0.015])
                if tiny <= master:
                    return ['p_sub', pid, tiny]
            return ['p_sub', pid, float(master) * rng.choice([0.05, 0.3, 0.5, 1.0, rng.random()])]
        if r < 0.25:
            cash = b.get_portfolio_cash_balance(pid)
            if cash <= 0:
                return ['p_wd', pid, 0.0] if cash == 0 else ['quote', self.quotes(1)]
            if rng.random() < 0.15:
                tiny = rng.choice([0.001, 0.004, 0.005, 0.009, 0.01, 0.015])
                if tiny <= cash:
                    return ['p_wd', pid, tiny]
            return ['p_wd', pid, float(cash) * rng.choice([0.0, 0.1, 0.5, 1.0, rng.random()])]
        if r < 0.55:
            a = rng.choice(assets)
            if len(assets) >= 2 and rng.random() < 0.04 and not any(p_.net for p_ in sc.model.ports[pid].pos.values()):
                # a market-neutral book: long q of one asset, short q of another, both quoted alike - market value exactly
                # 0.0 - and then the prices part
                a1, a2 = rng.sample(assets, 2)
                qt = rand_quote(rng, self.used)
                q_ = rng.randint(1, 500)
                self.tmax = next_time(rng, self.tmax)
                t_open = self.tmax.normalize() + pd.Timedelta(hours=15)
                while t_open < self.tmax or t_open.weekday() > 4:
                    t_open = t_open + pd.Timedelta(days=1)
                self.tmax = t_open
                self.queue.append(['exec', pid, [[a1, q_, self.oid(pid)], [a2, -q_, self.oid(pid)]], str(t_open)])
                self.tmax = self.tmax + pd.Timedelta(minutes=30)
                self.queue.append(['update', str(self.tmax)])          # both legs marked at the same mid: market value 0.0
                self.queue.append(['quote', {a1: rand_quote(rng, self.used)}])
                self.tmax = self.tmax + pd.Timedelta(hours=1)
                self.queue.append(['update', str(self.tmax)])
                return ['quote', {a1: qt, a2: list(qt)}]
            if rng.random() < 0.07:
                # a buy and a sell of the same size for one asset waiting in the same queue: filled in one update, the
                # holding ends where it started (nothing is read in between)
                q_ = rng.randint(1, 900)
                self.queue.append(['order', pid, a, -q_, self.oid(pid)])
                return ['order', pid, a, q_, self.oid(pid)]
            o_ = ['order', pid, a, self.qty(pid, a), self.oid(pid)]
            if rng.random() < 0.1:
                o_.append(rng.choice([4.95, 1.0, 25.0]))      # Order(commission=...): optional argument of the public class
            if rng.random() < 0.2:
                # the Order object carries a creation time other than the broker's "now" (built earlier and kept, or
                # stamped with the next open): submission order, not creation time, decides the sequence of fills
                if len(o_) == 5:
                    o_.append(0.0)
                o_.append(rng.choice(['-2h', '-3D', '1D', '-1us', '17h30min']))
            return o_
        if r < 0.83:
            self.tmax = next_time(rng, self.tmax)
            return ['update', str(self.tmax)]
        if r < 0.93:
            q_ = ['quote', self.quotes(rng.randint(1, len(assets)))]
            if rng.random() < 0.15:
                q_.append('swap')
            return q_
        self.tmax = next_time(rng, self.tmax)
        orders = []
        for _ in range(rng.randint(1, 3)):
            a = rng.choice(assets)
            orders.append([a, self.qty(pid, a), self.oid(pid)])
        return ['exec', pid, orders, str(self.tmax)]

    def quotes(self, n):
        assets = self.rng.sample(self.sc.cfg['assets'], n)
        return {a: rand_quote(self.rng, self.used) for a in assets}

    def fault(self):
        rng, sc = self.rng, self.sc
        b = sc.broker
        pids = list(sc.model.ports)
        pid = rng.choice(pids)
        master = b.get_account_cash_balance(sc.ccy)
        kinds = ['acct_sub_neg', 'acct_wd_neg', 'acct_wd_over', 'p_sub_neg', 'p_sub_unknown', 'p_sub_over',
                 'p_wd_neg', 'p_wd_unknown', 'p_wd_over', 'create_dup', 'get_cash_unknown', 'get_mv_unknown',
                 'get_eq_unknown', 'get_dict_unknown', 'badccy', 'new_broker', 'order_unknown']
        # direct portfolio requests with whole numbers given as ints (valid), and a fill without a positive price (refused)
        kinds += ['pf_mark_int', 'pf_mark_int', 'pf_txn_int', 'pf_txn_int', 'pf_txn_badprice', 'pf_txn_badprice']
        if self.faults == 'benign+back':
            kinds += ['update_back', 'update_back', 'update_back', 'update_back', 'update_back_ok', 'update_back_ok']
        if self.faults == 'all':
            kinds += ['update_back', 'update_back', 'update_back', 'update_back_ok', 'update_back_pos', 'neg_mark', 'neg_mark', 'pf_sub_back', 'pf_sub_neg',
                      'pf_wd_back', 'pf_wd_neg', 'pf_wd_over', 'pf_txn_back', 'pf_mark_neg', 'pf_mark_back',
                      'pf_txn_behind_pos', 'pf_txn_behind_pos', 'pf_mark_behind_pos', 'pf_mark_repeat', 'pf_mark_ahead',
                      'pf_mark_ahead', 'pf_sub_ahead', 'pf_sub_ahead', 'exec_back']      # exec_back ends the case (composite request)
        k = rng.choice(kinds)
        amt = rand_amount(rng) + 0.01
        over = lambda x: float(max(x, 0.0)) * rng.choice([1.0, 1.0, 1.0000001, 1.5, 10.0]) + rng.choice([0.001, 0.004, 0.0098, 0.01, 1.0, 1e6])  # noqa
        if k == 'acct_sub_neg':
            return ['acct_sub', -amt]
        if k == 'acct_wd_neg':
            return ['acct_wd', -amt]
        if k == 'acct_wd_over':
            return ['acct_wd', over(master)]
        if k == 'p_sub_neg':
            return ['p_sub', pid, -amt]
        if k == 'p_sub_unknown':
            return ['p_sub', 'nope', min(amt, max(master, 0.0))]
        if k == 'p_sub_over':
            return ['p_sub', pid, over(master)]
        if k == 'p_wd_neg':
            return ['p_wd', pid, -amt]
        if k == 'p_wd_unknown':
            return ['p_wd', 'nope', 0.0]
        if k == 'p_wd_over':
            return ['p_wd', pid, over(b.get_portfolio_cash_balance(pid))]
        if k == 'create_dup':
            return ['create', pid]
        if k in GETTER_FAULTS:
            return [k, 'nope']
        if k == 'badccy':
            return ['get_acct_cash_ccy', rng.choice(['XYZ', 'usd', 'JPY', ''] + (['CHF', 'CHF'] if sc.cfg.get('currency_added_later') else []))]
        if k == 'new_broker':
            return rng.choice([['new_broker', 'XYZ', 0.0], ['new_broker', 'USD', -amt]])
        if k == 'order_unknown':
            return ['order', 'nope', rng.choice(sc.cfg['assets']), rng.choice([self.qty(), self.qty(), 0]), self.oid()]
        # ---- faults that need state -------------------------------------
        clocks = {p: b.portfolios[p].current_dt for p in pids}
        latest = max(clocks.values())
        back = latest - pd.Timedelta(rng.choice([
            pd.Timedelta(microseconds=1), pd.Timedelta(minutes=7), pd.Timedelta(hours=5),
            pd.Timedelta(days=1), pd.Timedelta(days=3)]))
        if rng.random() < 0.5:
            # aim at an instant in exchange hours so that pending orders would execute
            d = back.normalize()
            while d.weekday() > 4:
                d -= pd.Timedelta(days=1)
            cand = d + pd.Timedelta(hours=rng.choice([14, 15, 18, 20]), minutes=30)
            if cand < latest:
                back = cand
        if k == 'update_back_pos':
            lo = max(clocks.values())
            hi = lo
            for p_ in pids:
                for pos in b.portfolios[p_].pos_handler.positions.values():
                    hi = max(hi, pos.current_dt)
            if not (lo < hi):
                return None
            self.queue.append(['update', str(self.tmax)])
            return ['update', str(lo + (hi - lo) * rng.choice([0.0, 0.5, 0.999]))]
        if k == 'update_back_ok':
            lo = max(clocks.values())
            for p in pids:
                for pos in b.portfolios[p].pos_handler.positions.values():
                    lo = max(lo, pos.current_dt)
            hi = b.current_dt
            if not (lo < hi):
                return None
            span = hi - lo
            t = lo + span * rng.choice([0.0, 0.25, 0.5, 0.9])
            if rng.random() < 0.6:
                # prefer an instant in exchange hours so that pending orders fill at the earlier time
                d = t.normalize()
                cand = d + pd.Timedelta(hours=rng.choice([14, 15, 18, 20]), minutes=30)
                if lo <= cand < hi and cand.weekday() <= 4:
                    t = cand
            self.queue.append(['update', str(self.tmax)])
            return ['update', str(t)]
        if k == 'update_back':
            # while the broker clock is behind a portfolio clock, otherwise valid transfers / orders are requested
            for _ in range(rng.choice([0, 0, 1, 1, 2])):
                x = rng.random()
                if x < 0.4 and master > 0:
                    self.queue.append(['p_sub', pid, float(master) * rng.choice([0.05, 0.3])])
                elif x < 0.7:
                    cash = b.get_portfolio_cash_balance(pid)
                    self.queue.append(['p_wd', pid, float(max(cash, 0.0)) * rng.choice([0.0, 0.1])])
                else:
                    a = rng.choice(sc.cfg['assets'])
                    self.queue.append(['order', pid, a, self.qty(pid, a), self.oid(pid)])
            self.queue.append(['update', str(self.tmax)])
            return ['update', str(back)]
        if k == 'exec_back':
            a = rng.choice(sc.cfg['assets'])
            self.queue.append(['update', str(self.tmax)])
            return ['exec', pid, [[a, self.qty(pid, a), self.oid()]], str(back)]
        if k == 'neg_mark':
            held = sorted({a for mp in sc.model.ports.values() for a, p in mp.pos.items() if p.net != 0})
            pend = {r['asset'] for mp in sc.model.ports.values() for r in mp.pending}
            cands = [a for a in held if a not in pend]
            if not cands:
                return None
            a = rng.choice(cands)
            old = list(sc.book.q[a])
            self.tmax = next_time(rng, self.tmax)
            neg = [-abs(old[0]), -abs(old[1])] if rng.random() < 0.7 else [-abs(old[1]) * 3, abs(old[0])]
            self.queue.append(['update', str(self.tmax)])
            self.queue.append(['quote', {a: old}])
            return ['quote', {a: neg}] + (['swap'] if rng.random() < 0.4 else [])
        mp = sc.model.ports[pid]
        clock = clocks[pid]
        earlier = str(clock - pd.Timedelta(rng.choice([pd.Timedelta(microseconds=1), pd.Timedelta(hours=3),
                                                         pd.Timedelta(days=2)])))
        nowish = str(max(clock, self.tmax))
        held = [a for a, p in mp.pos.items() if p.net != 0]
        if k == 'pf_sub_ahead':
            # a VALID direct portfolio subscription at a time ahead of the broker clock moves that portfolio's clock but not
            # the marks of its holdings; a broker update to an instant in between is refused, and no holding of any
            # portfolio may have been re-marked on the way
            holders = [p_ for p_ in pids if any(q_.net != 0 for q_ in sc.model.ports[p_].pos.values())]
            if len(holders) < 2:
                return None
            pid = holders[-1]
            base = max([self.tmax, b.current_dt] + list(clocks.values()) +
                       [pos_.current_dt for p_ in pids for pos_ in b.portfolios[p_].pos_handler.positions.values()])
            ahead = base + pd.Timedelta(hours=rng.choice([1, 2, 30]))
            between = base + (ahead - base) * rng.choice([0.25, 0.5, 0.999])
            self.queue.append(['quote', self.quotes(len(sc.cfg['assets']))])
            self.queue.append(['update', str(between)])
            self.tmax = ahead + pd.Timedelta(minutes=1)
            self.queue.append(['update', str(self.tmax)])
            return ['pf_sub', pid, str(ahead), 10.0]
        if k == 'pf_mark_ahead':
            # a VALID direct portfolio request: one held asset is marked at a time ahead of the broker's clock (the
            # portfolio's own clock stays); the broker update to an instant before that mark is then refused, and the
            # other holdings of the portfolio must not have been re-marked on the way
            cands = [p_ for p_ in pids if sum(1 for q_ in sc.model.ports[p_].pos.values() if q_.net != 0) >= 2]
            if not cands:
                return None
            pid = rng.choice(cands)
            held = sorted(a_ for a_, q_ in sc.model.ports[pid].pos.items() if q_.net != 0)
            base = max([self.tmax, b.current_dt] + list(clocks.values()) +
                       [pos_.current_dt for p_ in pids for pos_ in b.portfolios[p_].pos_handler.positions.values()])
            ahead = base + pd.Timedelta(hours=rng.choice([1, 2, 30]))
            between = base + (ahead - base) * rng.choice([0.0, 0.5, 0.999])
            self.queue.append(['quote', self.quotes(len(sc.cfg['assets']))])
            self.queue.append(['update', str(between)])
            self.tmax = ahead + pd.Timedelta(minutes=1)
            self.queue.append(['update', str(self.tmax)])
            return ['pf_mark', pid, rng.choice(held), rand_price(rng), str(ahead)]
        if k == 'pf_sub_back':
            return ['pf_sub', pid, earlier, amt]
        if k == 'pf_sub_neg':
            return ['pf_sub', pid, nowish, -amt]
        if k == 'pf_wd_back':
            return ['pf_wd', pid, earlier, 0.0]
        if k == 'pf_wd_neg':
            return ['pf_wd', pid, nowish, -amt]
        if k == 'pf_wd_over':
            return ['pf_wd', pid, nowish, over(b.get_portfolio_cash_balance(pid))]
        if k == 'pf_txn_back':
            return ['pf_txn', pid, earlier, rng.choice(sc.cfg['assets']), self.qty(), rand_price(rng), 0.0]
        if k == 'pf_mark_int':
            # a VALID direct mark whose price is a whole number given as an int
            if not held:
                return None
            return ['pf_mark', pid, rng.choice(held), rng.randint(1, 900), nowish]
        if k == 'pf_txn_int':
            # a VALID hand-made transaction whose commission (and sometimes price) is a whole number given as an int
            a = rng.choice(held) if held and rng.random() < 0.6 else rng.choice(sc.cfg['assets'])
            pos_ = b.portfolios[pid].pos_handler.positions.get(a)
            t_ = nowish if pos_ is None else str(max(ts(nowish), pos_.current_dt))
            price = rng.randint(1, 900) if rng.random() < 0.4 else rand_price(rng)
            return ['pf_txn', pid, t_, a, self.qty(pid, a), price, rng.choice([1, 2, 5, 12, 40])]
        if k == 'pf_txn_badprice':
            # a fill without a positive price in a HELD asset is refused by its position; often it would have closed it
            if not held:
                return None
            a = rng.choice(held)
            pos_ = b.portfolios[pid].pos_handler.positions[a]
            q_ = -mp.pos[a].net if rng.random() < 0.6 else self.qty(pid, a)
            return ['pf_txn', pid, str(max(ts(nowish), pos_.current_dt)), a, q_, rng.choice([0.0, -1.5, 0, -rand_price(rng)]), 0.0]
        if k == 'pf_mark_neg':
            if not held:
                return None
            return ['pf_mark', pid, rng.choice(held), -rand_price(rng), nowish]
        if k == 'pf_mark_back':
            if not held:
                return None
            return ['pf_mark', pid, rng.choice(held), rand_price(rng), earlier]
        if k == 'pf_mark_repeat':
            stale = [(a, b.portfolios[pid].pos_handler.positions[a]) for a in held
                     if b.portfolios[pid].pos_handler.positions[a].current_dt < clock]
            if not stale:
                return None
            a, pos_ = rng.choice(stale)
            return ['pf_mark', pid, a, float(pos_.current_price), str(pos_.current_dt)]
        if k in ('pf_txn_behind_pos', 'pf_mark_behind_pos'):
            cands = [(a, b.portfolios[pid].pos_handler.positions[a].current_dt) for a in held
                     if b.portfolios[pid].pos_handler.positions[a].current_dt > clock]
            if not cands:
                return None
            a, pclock = rng.choice(cands)
            between = str(clock + (pclock - clock) * rng.choice([0.0, 0.5, 0.999]))
            if k == 'pf_mark_behind_pos':
                return ['pf_mark', pid, a, rand_price(rng), between]
            q_ = -mp.pos[a].net if rng.random() < 0.5 else self.qty(pid, a)       # often the fill would have closed it
            return ['pf_txn', pid, between, a, q_, rand_price(rng), 0.0]
        return None


def finish_case(sc, acc, prop, ops):
    """Non-triviality rule per property (stated in each check's RULE)."""
    fl = sc.flags
    def sgn(o):
        if o[0] == 'order':
            return 1 if o[3] > 0 else -1
        if o[0] == 'pf_txn':
            return 1 if o[4] > 0 else -1
        return 0
    kinds = tuple((o[0], sgn(o)) for o in ops)
    nt = False
    if prop == 'C01':
        nt = {'fill', 'transfer-in', 'transfer-out'} <= fl and len(sc.model.ports) >= 2
    elif prop == 'C02':
        nt = 'reopened' in fl or 'flip' in fl
    elif prop == 'C03':
        nt = 'two-sided-commission' in fl
    elif prop == 'C04':
        nt = 'waited' in fl and 'mixed-batch' in fl
    elif prop == 'C05':
        nt = 'c05-buy' in fl and 'c05-sell' in fl
    elif prop == 'C15':
        nt = 'refusal-in-state' in fl
    if nt:
        acc.nontriv(prop, kinds, sc.cfg.get('fee'), len(sc.model.ports))
    for f in fl:
        acc.count('case_flag:%s' % f)


def run_ops(sc, ops, acc, prop):
    """Feed recorded ops (replay). Returns Violation or None."""
    try:
        for op in ops:
            sc.step(op)
    except Stop:
        acc.count('cases_stopped_on_divergence')
    except Violation as v:
        return v
    return None


def run_case(case, acc, prop, active=None):
    for key, fn in (('aborted_update', aborted_update_case), ('late_quote', late_quote_case), ('negative_mark', negative_mark_case),
                    ('real_handler', real_handler_case)):
        if key in case:
            try:
                if key == 'real_handler':
                    fn(case[key], acc, case.get('prop', prop))
                elif key == 'aborted_update':
                    fn(case[key], acc, prop=case.get('prop', 'C05'))
                else:
                    fn(case[key], acc)
            except Violation as v:
                acc.violation(v, case)
            return None
    if case.get('kind') == 'symmetry':
        rng = random.Random(0)
        # replay of a symmetry pair: same price / quantity / rates
        return replay_symmetry(case, acc)
    cls = PortfolioScenario if case.get('level') == 'portfolio' else Scenario
    with core.loud(bool(case['cfg'].get('loud')), strict=bool(case['cfg'].get('strict_warnings'))):
        sc = cls(case['cfg'], active or {prop}, acc)
        v = run_ops(sc, case['ops'], acc, prop)
    if v is not None and v.prop == prop:
        acc.violation(v, case)
    finish_case(sc, acc, prop, case['ops'])
    return sc


def generate_and_run(rng, acc, prop, faults, nops, active=None):
    """Generate one broker-level case in lock-step and run the monitors on it."""
    cfg = make_cfg(rng)
    loud = core.loud(bool(cfg.get('loud')), strict=bool(cfg.get('strict_warnings')))
    loud.__enter__()
    sc = Scenario(cfg, active or {prop}, acc)
    gen = Gen(rng, sc, faults)
    ops = []
    case = {'level': 'broker', 'cfg': cfg, 'ops': ops}
    try:
        for _ in range(nops):
            op = gen.next()
            ops.append(op)
            pre_state = sc.state_class() if prop == 'C15' else None
            n_ref = acc.counters.get('C15:refusals_checked', 0)
            sc.step(op)
            if prop == 'C15' and acc.counters.get('C15:refusals_checked', 0) > n_ref and pre_state != 'empty':
                sc.flags.add('refusal-in-state')
    except Stop:
        acc.count('cases_stopped_on_divergence')
    except Violation as v:
        if v.prop == prop:
            acc.violation(v, case)
    finally:
        loud.__exit__(None, None, None)
    acc.evaluations += 1
    acc.count('ops_executed', len(ops))
    if cfg.get('loud'):
        acc.count('cases_with_event_printing_on')
    if cfg.get('strict_warnings'):
        acc.count('cases_with_warnings_escalated_to_errors')
    finish_case(sc, acc, prop, ops)
    if len(ops) <= 40:
        acc.sample({'cfg': cfg, 'ops': ops})
    return sc


def symmetry_pair(rng, acc, replay_of=None):
    """
    C05: a buy of X and a sell of Y of the same size at the same price must pay the same commission.
    Half of the pairs have a consideration that is an exact tie (n + 0.5).
    """
    install()
    from qstrader.broker.simulated_broker import SimulatedBroker
    from qstrader.exchange.simulated_exchange import SimulatedExchange
    from qstrader.broker.fee_model.percent_fee_model import PercentFeeModel
    from qstrader.execution.order import Order
    tie = rng.random() < 0.5
    if replay_of is None and rng.random() < 0.12:
        # a consideration a few billionths BELOW n + 0.5 for a small n: unambiguously rounds down
        tie = False
        near_n = rng.choice([0, 1, 2])
        replay_of = (False, near_n + 0.5 - rng.choice([3e-9, 4e-9, 4.9e-9]) * (1 if near_n else 1), 1)
        acc.count('C05:pairs_just_below_a_rounding_tie')
    if replay_of is not None:
        tie, price, qty = replay_of            # the same trade again, under another fee schedule
    elif tie:
        price = float(rng.randint(1, 3000)) + 0.5
        qty = 2 * rng.randint(0, 400) + 1
    elif replay_of is None:
        price = rand_price(rng)
        qty = max(1, int(10 ** rng.uniform(0, 4.5)))
    spread = rng.choice([0.01, 0.25, 1.0])
    t = ts(MON_OPEN) + pd.Timedelta(minutes=rng.randint(0, 380))
    book = QuoteBook()
    book.now = t
    book.set('EQ:X', price - spread, price)     # buy X at its ask = price
    book.set('EQ:Y', price, price + spread)     # sell Y at its bid = price
    c = rng.choice([0.001, 0.005, 0.05, 0.3, round(rng.random(), 6) + 1e-6])
    x = rng.choice([0.0, 0.005, round(rng.random(), 6)])
    model = PercentFeeModel(commission_pct=c, tax_pct=x)
    how = rng.random()
    if how < 0.4:
        # every argument by position, in the documented order (account id, base currency, funds, fee model)
        broker = SimulatedBroker(t, SimulatedExchange(t), book, 'acct', 'USD', 1e9, model)
    elif how < 0.7:
        broker = SimulatedBroker(t, SimulatedExchange(t), book, initial_funds=1e9, fee_model=model)
    else:
        # built with the default (zero-fee) model, configured afterwards: broker.fee_model is a plain public attribute
        broker = SimulatedBroker(t, SimulatedExchange(t), book, initial_funds=1e9)
        broker.fee_model = model
        acc.count('C05:pairs_on_a_broker_given_its_fee_model_after_construction')
    broker.create_portfolio('P')
    broker.subscribe_funds_to_portfolio('P', 1e9)
    if rng.random() < 0.35 and price > 2 * spread:
        # the fee schedule is revised on the model object the broker was given (public attributes) after it has priced the
        # very same trade once under the old rates
        broker.submit_order('P', Order(t, 'EQ:X', qty))
        broker.submit_order('P', Order(t, 'EQ:Y', -qty))
        broker.update(t)
        c = rng.choice([0.002, 0.01, 0.07])
        x = rng.choice([0.0, 0.003])
        model.commission_pct, model.tax_pct = c, x
        acc.count('C05:pairs_after_a_rate_change_on_the_same_model_object')
    del _Instr.txns[:]
    broker.submit_order('P', Order(t, 'EQ:X', qty, order_id='buy'))
    broker.submit_order('P', Order(t, 'EQ:Y', -qty, order_id='sell'))
    broker.update(t)
    by = {d['order_id']: d for d in _Instr.txns}
    case = {'kind': 'symmetry', 'price': price, 'qty': qty, 'rates': [c, x], 'tie': tie}
    if set(by) != {'buy', 'sell'}:
        raise Violation('C05', 'symmetry/fills', 'expected one buy and one sell fill, got %s' % sorted(by), case)
    cb, cs = by['buy']['commission'], by['sell']['commission']
    acc.count('C05:symmetry_pairs')
    if tie:
        acc.count('C05:symmetry_pairs_on_exact_tie')
    symmetry_pair.last = (tie, price, qty)
    if by['buy']['price'] != price or by['sell']['price'] != price:
        raise Violation('C05', 'symmetry/price', 'buy at %r sell at %r, both quotes are %r' % (by['buy']['price'], by['sell']['price'], price), case)
    exact = F(price) * qty
    wants = [(F(c) + F(x)) * abs(n) for n in core.round_candidates(exact)]
    if not any(close(cb, w_, abs(w_), rel=1e-12) for w_ in wants):
        raise Violation('C05', 'commission/pair', 'buy of %d @ %r under rates %r + %r is charged %r; the fee model gives %s'
                        % (qty, price, c, x, cb, [float(w_) for w_ in wants]), case)
    if abs(cb - cs) > 1e-12 * max(abs(cb), abs(cs), 1e-300) or cb < 0 or cs < 0:
        raise Violation('C05', 'commission-asymmetric' + ('/tie' if tie else ''),
                        'buy of %d @ %r is charged %r but the sell of the same size at the same price is charged %r '
                        '(consideration %r, rates %r + %r)' % (qty, price, cb, cs, price * qty, c, x), case)


class LateBook(object):
    """Data handler whose assets have no quote (NaN) until one is set."""

    def __init__(self):
        self.q = {}

    def get_asset_latest_bid_ask_price(self, dt, asset):
        return self.q.get(asset, (np.nan, np.nan))

    def get_asset_latest_bid_price(self, dt, asset):
        return self.get_asset_latest_bid_ask_price(dt, asset)[0]

    def get_asset_latest_ask_price(self, dt, asset):
        return self.get_asset_latest_bid_ask_price(dt, asset)[1]

    def get_asset_latest_mid_price(self, dt, asset):
        b_, a_ = self.get_asset_latest_bid_ask_price(dt, asset)
        return (b_ + a_) / 2.0


def late_quote_script(rng):
    """An order for an asset that gets its first quote only at the fill time, waiting through updates outside
    exchange hours (C04: 'for assets that have a quote at the fill time')."""
    day = pd.Timestamp('2021-03-0%d 21:00:00' % rng.choice([1, 2, 3, 4, 5]), tz='UTC')      # Mon..Fri close
    closed = [day + pd.Timedelta(hours=h) for h in sorted(rng.sample([0, 1, 3, 12, 17], rng.randint(1, 4)))]
    if day.weekday() == 4:
        closed += [day + pd.Timedelta(days=1, hours=18), day + pd.Timedelta(days=2, hours=16)]      # weekend, in 14:30-21:00
    nxt = day + pd.Timedelta(days=3 if day.weekday() == 4 else 1)
    open_t = nxt.normalize() + pd.Timedelta(hours=14, minutes=30) + pd.Timedelta(minutes=rng.choice([0, 0, 1, 200]))
    return {'t0': str(day), 'closed': [str(t) for t in closed if t < open_t], 'open': str(open_t),
            'qty_late': rng.choice([1, -1]) * rng.randint(1, 500), 'qty_held': rng.randint(1, 300),
            'price_late': rand_price(rng), 'price_held': rand_price(rng), 'hold_first': rng.random() < 0.7}


def late_quote_case(sp, acc):
    from qstrader.broker.simulated_broker import SimulatedBroker
    from qstrader.exchange.simulated_exchange import SimulatedExchange
    from qstrader.broker.fee_model.zero_fee_model import ZeroFeeModel
    from qstrader.execution.order import Order
    t0 = ts(sp['t0'])
    book = LateBook()
    book.q['EQ:OLD'] = (sp['price_held'], sp['price_held'])
    b = SimulatedBroker(t0 - pd.Timedelta(hours=3), SimulatedExchange(t0), book, initial_funds=1e9, fee_model=ZeroFeeModel())
    b.create_portfolio('p')
    b.subscribe_funds_to_portfolio('p', 5e8)
    if sp['hold_first']:
        b.submit_order('p', Order(b.current_dt, 'EQ:OLD', sp['qty_held']))
        b.update(t0 - pd.Timedelta(hours=3))          # 18:00 on a weekday: fills
    b.update(t0)
    b.submit_order('p', Order(t0, 'EQ:NEW', sp['qty_late'], order_id='late'))
    before = (b.get_portfolio_cash_balance('p'), {a: d['quantity'] for a, d in b.get_portfolio_as_dict('p').items()})
    for t in sp['closed']:
        try:
            b.update(ts(t))
        except Exception as e:
            raise Violation('C04', 'closed-update-raised/%s' % type(e).__name__, 'an order for EQ:NEW (first quote at the fill time '
                            '%s) is pending; the update at %s, outside exchange hours, raised %r' % (sp['open'], t, e), sp)
        now = (b.get_portfolio_cash_balance('p'), {a: d['quantity'] for a, d in b.get_portfolio_as_dict('p').items()})
        if now != before or b.open_orders['p'].qsize() != 1:
            raise Violation('C04', 'pending-order-touched', 'after the closed-hours update at %s the pending order for EQ:NEW is '
                            'gone or cash/holdings moved: %s -> %s, queue %d' % (t, before, now, b.open_orders['p'].qsize()), sp)
        acc.count('C04:closed_updates_before_first_quote')
    book.q['EQ:NEW'] = (sp['price_late'], sp['price_late'])
    try:
        b.update(ts(sp['open']))
    except Exception as e:
        raise Violation('C04', 'fill-update-raised/%s' % type(e).__name__, 'EQ:NEW has a quote at %s; the update raised %r' % (sp['open'], e), sp)
    held = {a: d['quantity'] for a, d in b.get_portfolio_as_dict('p').items()}
    if held.get('EQ:NEW') != sp['qty_late'] or b.open_orders['p'].qsize() != 0:
        raise Violation('C04', 'late-quoted-order-not-filled', 'order of %s EQ:NEW not filled in full at the first in-hours update %s: '
                        'holdings %s, queue %d' % (sp['qty_late'], sp['open'], held, b.open_orders['p'].qsize()), sp)
    want_cash = F(before[0]) - F(sp['price_late']) * sp['qty_late']
    if not close(b.get_portfolio_cash_balance('p'), want_cash, abs(F(before[0]))):
        raise Violation('C04', 'late-quoted-order-cash', 'cash after the fill is %r, expected %r' % (b.get_portfolio_cash_balance('p'), float(want_cash)), sp)
    acc.count('C04:orders_waiting_for_a_first_quote')


def real_handler_script(rng):
    """Orders filled through the REAL data handler over CSV files: the handler was given a universe (what the strategy looks
    at) that does not cover everything the broker trades, and possibly two sources that both price an asset (C04 / C05)."""
    day = rng.choice([1, 2, 3, 4])
    return {'day': '2021-03-0%d' % day, 'price': rand_price(rng), 'price2': rand_price(rng),
            'universe': rng.choice(['none', 'narrow', 'narrow', 'late_entry', 'late_entry', 'full']),
            'sources': rng.choice([1, 2, 2]), 'second_has_asset': rng.random() < 0.7,
            'submit_before_open': rng.random() < 0.5, 'tod': rng.choice(['14:30', '15:00', '18:45', '20:59']),
            'qx': rng.choice([1, -1]) * rng.randint(1, 400), 'qy': rng.choice([1, -1]) * rng.randint(1, 400),
            'relative_dir': rng.random() < 0.3, 'y_first': rng.random() < 0.5, 'rates': [rng.choice([0.0, 0.001, 0.0057]), rng.choice([0.0, 0.005])]}


def real_handler_case(sp, acc, prop):
    import shutil
    import tempfile
    from qstrader.asset.universe.static import StaticUniverse
    from qstrader.asset.universe.dynamic import DynamicUniverse
    from qstrader.broker.simulated_broker import SimulatedBroker
    from qstrader.exchange.simulated_exchange import SimulatedExchange
    from qstrader.broker.fee_model.percent_fee_model import PercentFeeModel
    from qstrader.data.backtest_data_handler import BacktestDataHandler
    from qstrader.data.daily_bar_csv import CSVDailyBarDataSource
    from qstrader.execution.order import Order
    from qsmon import datawl
    days = ['2021-03-01', '2021-03-02', '2021-03-03', '2021-03-04', '2021-03-05']
    d1, d2 = tempfile.mkdtemp(prefix='qsmon-rh-'), tempfile.mkdtemp(prefix='qsmon-rh-')
    try:
        p, p2 = sp['price'], sp['price2']
        bars = lambda base: [{'date': d, 'open': base + i, 'close': base + i + 0.5, 'adj': base + i + 0.5} for i, d in enumerate(days)]  # noqa
        datawl.write_csv(os.path.join(d1, 'XXX.csv'), bars(p), list(range(len(days))))
        datawl.write_csv(os.path.join(d1, 'YYY.csv'), bars(p + 17.0), list(range(len(days))))
        datawl.write_csv(os.path.join(d2, ('YYY' if sp['second_has_asset'] else 'ZZZ') + '.csv'), bars(p2), list(range(len(days))))
        if sp.get('relative_dir'):
            # the directory is named relative to where the program was started; the program moves elsewhere afterwards
            cwd0 = os.getcwd()
            os.chdir(os.path.dirname(d1))
            try:
                sources = [CSVDailyBarDataSource(os.path.basename(d1), None, adjust_prices=False)]
            finally:
                os.chdir(cwd0)
            acc.count('%s:real_handler_sources_named_relative_to_an_earlier_working_directory' % prop)
        else:
            sources = [CSVDailyBarDataSource(d1, None, adjust_prices=False)]
        if sp['sources'] == 2:
            sources.append(CSVDailyBarDataSource(d2, None, adjust_prices=False))
        early = pd.Timestamp('2020-01-01 00:00:00', tz='UTC')
        uni = {'none': None, 'full': StaticUniverse(['EQ:XXX', 'EQ:YYY']), 'narrow': StaticUniverse(['EQ:XXX']),
               'late_entry': DynamicUniverse({'EQ:XXX': early, 'EQ:YYY': pd.Timestamp('2021-06-01 00:00:00', tz='UTC')})}[sp['universe']]
        handler = BacktestDataHandler(uni, data_sources=sources)
        fill_t = ts(sp['day'] + ' ' + sp['tod'] + ':00')
        t0 = ts(sp['day'] + ' 10:00:00') if sp['submit_before_open'] else fill_t
        b = SimulatedBroker(t0, SimulatedExchange(t0), handler, initial_funds=1e7, fee_model=PercentFeeModel(*sp['rates']))
        b.create_portfolio('p')
        b.subscribe_funds_to_portfolio('p', 5e6)
        orders = [('EQ:XXX', sp['qx']), ('EQ:YYY', sp['qy'])]
        if sp['y_first']:
            orders.reverse()
        for a, q in orders:
            b.submit_order('p', Order(t0, a, q))
        if sp['submit_before_open']:
            b.update(t0)
            if b.get_portfolio_as_dict('p') or b.open_orders['p'].qsize() != 2:
                raise Violation('C04', 'filled-outside-hours', 'orders submitted at %s were touched by the update at that time, '
                                'outside exchange hours' % t0, sp)
        cash0 = b.get_portfolio_cash_balance('p')
        try:
            b.update(fill_t)
        except Exception as e:
            raise Violation(prop, 'fill-update-raised/%s' % type(e).__name__, 'both assets have bars in the CSV directory the handler '
                            'reads (universe given to the handler: %s); the in-hours update at %s raised %r' % (sp['universe'], fill_t, e), sp)
        idx = days.index(sp['day'])
        px = {'EQ:XXX': p + idx, 'EQ:YYY': p + 17.0 + idx}         # the open of that day in the FIRST source that has the asset
        for rep in range(2):
            held = {a: d['quantity'] for a, d in b.get_portfolio_as_dict('p').items()}
            if prop == 'C04' and (held != dict(orders) or b.open_orders['p'].qsize() != 0):
                raise Violation('C04', 'order-not-filled-in-full-once', 'orders %s at the in-hours update %s (universe given to the '
                                'handler: %s): holdings %s, queue %d%s' % (orders, fill_t, sp['universe'], held, b.open_orders['p'].qsize(),
                                                                         ' after one more update' if rep else ''), sp)
            if rep == 0:
                # the commission is charged on the consideration rounded to whole currency units (as the library documents)
                wants = [F(cash0)]
                for a, q in orders:
                    cons = F(px[a]) * q
                    wants = [w - cons - (F(sp['rates'][0]) + F(sp['rates'][1])) * abs(F(r))
                             for w in wants for r in sorted(core.round_candidates(cons))]
                got = b.get_portfolio_cash_balance('p')
                want = min(wants, key=lambda w: abs(w - F(got)))
                if prop == 'C05' and not close(got, want, abs(F(cash0))):
                    raise Violation('C05', 'fill-price-through-real-handler', 'orders %s filled at %s through the real handler over '
                                    '%d source(s): cash went from %r to %r, the first source\'s quotes %s and rates %s give %r'
                                    % (orders, fill_t, sp['sources'], cash0, got, px, sp['rates'], float(want)), sp)
                b.update(fill_t + pd.Timedelta(minutes=1) if fill_t.hour < 20 else fill_t)
        acc.count('%s:fills_through_the_real_data_handler' % prop)
        acc.count('%s:fills_through_the_real_data_handler/universe=%s' % (prop, sp['universe']))
    finally:
        shutil.rmtree(d1, ignore_errors=True)
        shutil.rmtree(d2, ignore_errors=True)


def aborted_update_script(rng):
    """An in-hours update that fills an order and then fails on an order whose asset has no price yet (the documented
    ValueError); the caller carries on. The NEXT fills must use the quotes of their own update (C05)."""
    t1 = pd.Timestamp('2021-03-0%d 15:00:00' % rng.choice([1, 2, 3, 4]), tz='UTC') + pd.Timedelta(minutes=rng.randint(0, 300))
    gap = rng.choice([pd.Timedelta(minutes=1), pd.Timedelta(hours=1), pd.Timedelta(days=1)])
    q1 = rand_quote(rng, set())
    q2 = rand_quote(rng, set(q1))
    return {'t1': str(t1), 't2': str(t1 + gap if (t1 + gap).hour < 21 and (t1 + gap).hour >= 15 else t1 + pd.Timedelta(days=1)),
            'q1': q1, 'q2': q2, 'rates': [rng.choice([0.0, 0.001, 0.01]), rng.choice([0.0, 0.005])],
            'first': rng.choice([1, -1]) * rng.randint(1, 400), 'second': rng.choice([1, -1]) * rng.randint(1, 400),
            'closed_between': rng.random() < 0.5}


def aborted_update_case(sp, acc, prop='C05'):
    from qstrader.broker.simulated_broker import SimulatedBroker
    from qstrader.exchange.simulated_exchange import SimulatedExchange
    from qstrader.broker.fee_model.percent_fee_model import PercentFeeModel
    from qstrader.execution.order import Order
    t1, t2 = ts(sp['t1']), ts(sp['t2'])
    book = LateBook()
    book.q['EQ:X'] = tuple(sp['q1'])
    c, x = sp['rates']
    b = SimulatedBroker(t1, SimulatedExchange(t1), book, initial_funds=1e9, fee_model=PercentFeeModel(commission_pct=c, tax_pct=x))
    b.create_portfolio('p')
    b.subscribe_funds_to_portfolio('p', 2e7)
    b.submit_order('p', Order(t1, 'EQ:X', sp['first']))
    if prop == 'C02':
        b.update(t1)                                   # EQ:X is held (and has been marked) BEFORE the update that aborts
        t1 = t1 + pd.Timedelta(minutes=1)
        b.get_portfolio_total_market_value('p')        # ... and its value has been asked for
        b.get_portfolio_total_equity('p')
        qm = (sp['q1'][0] * 1.5 + 0.25, sp['q1'][1] * 1.5 + 0.5)
        book.q['EQ:X'] = qm
    b.submit_order('p', Order(t1, 'EQ:NOPRICE', 10))
    try:
        b.update(t1)
    except ValueError:
        acc.count('C05:updates_aborted_by_an_unpriced_order')
        if prop == 'C02':
            # the aborted update re-marked the holdings before it failed on the order: the valuation read now says so
            want_ = (F(qm[0]) + F(qm[1])) / 2 * sp['first']
            got_ = b.get_portfolio_total_market_value('p')
            if not close(got_, want_, abs(want_) + 1, rel=1e-12):
                raise Violation('C02', 'aborted-update/market-value-right-after', 'right after an update that re-marked EQ:X at %s and then '
                                'failed on an unpriced order, the market value of %d EQ:X reads %r; quantity x latest price = %r'
                                % (qm, sp['first'], got_, float(want_)), sp)
    if sp['closed_between']:
        b.update(t1.normalize() + pd.Timedelta(hours=22))       # outside exchange hours: nothing executes
        if t2 <= b.current_dt:
            t2 = t2 + pd.Timedelta(days=1)
            while t2.weekday() > 4:
                t2 = t2 + pd.Timedelta(days=1)
    book.q['EQ:X'] = tuple(sp['q2'])
    cash0 = b.get_portfolio_cash_balance('p')
    n0 = len(b.portfolios['p'].history)
    if prop != 'C02':
        b.submit_order('p', Order(b.current_dt, 'EQ:X', sp['second']))
    b.update(t2)
    if prop == 'C02':
        # valuation after the update that FOLLOWS the aborted one: every holding at the quotes of that update
        net = sp['first']
        mid2 = (F(sp['q2'][0]) + F(sp['q2'][1])) / 2          # nothing is traded at this update: the holding is marked at the mid
        want_mv = mid2 * net
        got_mv = b.get_portfolio_total_market_value('p')
        if not close(got_mv, want_mv, abs(want_mv) + 1, rel=1e-12):
            raise Violation('C02', 'aborted-update/market-value', 'after an update aborted by an unpriced order and a further update at %s '
                            '(quote %s) the market value of %d EQ:X is %r, quantity x latest price = %r (the aborted update saw %s)'
                            % (sp['t2'], sp['q2'], net, got_mv, float(want_mv), sp['q1']), sp)
        eq = b.get_portfolio_total_equity('p')
        if not close(eq, F(b.get_portfolio_cash_balance('p')) + want_mv, abs(want_mv) + abs(F(b.get_portfolio_cash_balance('p'))), rel=1e-12):
            raise Violation('C02', 'aborted-update/equity', 'equity %r is not cash + market value after an aborted update' % eq, sp)
        acc.count('C02:valuations_after_an_aborted_update')
        return
    hist = b.portfolios['p'].history[n0:]
    if len(hist) != 1:
        raise Violation('C05', 'aborted-update/fill-count', '%d history entries for one order after an aborted update' % len(hist), sp)
    q = sp['second']
    price = sp['q2'][1] if q > 0 else sp['q2'][0]
    exact = F(price) * q
    wants = [exact + (F(c) + F(x)) * abs(n) for n in core.round_candidates(exact)]
    got = F(cash0) - F(b.get_portfolio_cash_balance('p'))
    if not any(close(got, w_, abs(F(cash0)) + abs(w_)) for w_ in wants):      # a difference of two balances: scaled by them
        other = sp['q1'][1] if q > 0 else sp['q1'][0]
        raise Violation('C05', 'aborted-update/stale-quote', 'after an update that was aborted by an order without a price, the next fill '
                        '(%d EQ:X at %s, quote %s) moved the cash by %r; price x quantity + commission at the current quote is %s '
                        '(the aborted update\'s quote was %s)' % (q, sp['t2'], sp['q2'], float(got), [float(w_) for w_ in wants], other), sp)
    if hist[0].dt != t2:
        raise Violation('C05', 'aborted-update/fill-time', 'fill stamped %s, update time %s' % (hist[0].dt, t2), sp)
    if abs(sp['q1'][0] - sp['q2'][0]) < 1e-6 * sp['q2'][0]:
        return
    acc.count('C05:fills_after_an_aborted_update')


def negative_mark_script(rng):
    """A negative price reaching the broker through the library's own data handler: one or two CSV sources, the first
    of which quotes a held asset negative on one day; optionally another held asset the handler has no data for."""
    return {'sources': rng.choice([1, 2, 2]), 'second_has_asset': rng.random() < 0.6, 'nodata_first': rng.random() < 0.5,
            'nodata_held': rng.random() < 0.5, 'qty': rng.randint(1, 300), 'price': float(rng.randint(5, 400)),
            'neg': -float(rng.choice([0.5, 3, 120])), 'tod': rng.choice(['15:00', '21:00', '09:00']),
            'zero_mv': rng.random() < 0.3}


def negative_mark_case(sp, acc):
    import shutil
    import tempfile
    from qstrader.broker.simulated_broker import SimulatedBroker
    from qstrader.broker.transaction.transaction import Transaction
    from qstrader.exchange.simulated_exchange import SimulatedExchange
    from qstrader.broker.fee_model.zero_fee_model import ZeroFeeModel
    from qstrader.data.backtest_data_handler import BacktestDataHandler
    from qstrader.data.daily_bar_csv import CSVDailyBarDataSource
    from qstrader.execution.order import Order
    from qsmon import datawl
    days = ['2021-03-01', '2021-03-02', '2021-03-03', '2021-03-04', '2021-03-05']
    bad = days[2]
    d1, d2 = tempfile.mkdtemp(prefix='qsmon-neg-'), tempfile.mkdtemp(prefix='qsmon-neg-')
    try:
        p = sp['price']
        rows1 = [{'date': d, 'open': (sp['neg'] if d == bad else p + i), 'close': (sp['neg'] if d == bad else p + i + 0.5),
                  'adj': (sp['neg'] if d == bad else p + i + 0.5)} for i, d in enumerate(days)]
        datawl.write_csv(os.path.join(d1, 'XXX.csv'), rows1, list(range(len(rows1))))
        datawl.write_csv(os.path.join(d1, 'WWW.csv'), [{'date': d, 'open': p + i, 'close': p + i + 0.5, 'adj': p + i + 0.5}
                                                       for i, d in enumerate(days)], list(range(len(days))))
        datawl.write_csv(os.path.join(d1, 'YYY.csv'), [{'date': d, 'open': 40.0 + i, 'close': 41.0 + i, 'adj': 41.0 + i}
                                                       for i, d in enumerate(days)], list(range(len(days))))
        other = 'XXX' if sp['second_has_asset'] else 'ZZZ'
        datawl.write_csv(os.path.join(d2, other + '.csv'), [{'date': d, 'open': 2 * p + i, 'close': 2 * p + i + 1.0,
                                                            'adj': 2 * p + i + 1.0} for i, d in enumerate(days)], list(range(len(days))))
        sources = [CSVDailyBarDataSource(d1, None, adjust_prices=False)]
        if sp['sources'] == 2:
            sources.append(CSVDailyBarDataSource(d2, None, adjust_prices=False))
        handler = BacktestDataHandler(None, data_sources=sources)
        t0 = ts(days[1] + ' 15:00:00')
        b = SimulatedBroker(t0, SimulatedExchange(t0), handler, initial_funds=1e8, fee_model=ZeroFeeModel())
        b.create_portfolio('p')
        b.subscribe_funds_to_portfolio('p', 5e7)
        pf = b.portfolios['p']
        if sp.get('zero_mv'):
            # a market-neutral book: short q of one asset and long q of another at the same price - its market value is 0.0
            b.submit_order('p', Order(t0, 'EQ:WWW', -sp['qty']))
            b.submit_order('p', Order(t0, 'EQ:XXX', sp['qty']))
            b.update(t0)
            acc.count('C15:negative_marks_on_a_book_with_zero_market_value')
        else:
            if sp['nodata_held'] and sp['nodata_first']:
                pf.transact_asset(Transaction('EQ:NODATA', 10, t0, 7.0, 'n1', commission=0.0))
            b.submit_order('p', Order(t0, 'EQ:YYY', 5))
            b.submit_order('p', Order(t0, 'EQ:XXX', sp['qty']))
            b.update(t0)
            if sp['nodata_held'] and not sp['nodata_first']:
                pf.transact_asset(Transaction('EQ:NODATA', 10, t0, 7.0, 'n1', commission=0.0))
        t1 = ts(bad + ' ' + sp['tod'] + ':00')
        if t1.hour < 14:
            t1 = ts(bad + ' 15:30:00')            # the negative bar is in force from its open
        snap = lambda: json.dumps({'cash': float(pf.cash).hex(), 'hold': {a: [d['quantity'], repr(d['market_value']), repr(d['unrealised_pnl'])]
                                                                            for a, d in pf.portfolio_to_dict().items()},
                                   'hist': len(pf.history), 'queue': b.open_orders['p'].qsize()}, sort_keys=True)
        before = snap()
        try:
            b.update(t1)
        except ValueError:
            acc.count('C15:negative_marks_through_the_real_data_handler_refused')
        except Exception as e:
            raise Violation('C15', 'refusal-wrong-type/update/real-handler/%s' % type(e).__name__, 'update at %s with EQ:XXX quoted %s by '
                            'the first data source raised %r' % (t1, sp['neg'], e), sp)
        else:
            raise Violation('C15', 'negative-mark-accepted/real-handler', 'EQ:XXX is quoted %s by the first data source at %s (%d source(s), '
                            'second source %s): broker.update accepted it; holdings now %s'
                            % (sp['neg'], t1, sp['sources'], 'also carries XXX' if sp['second_has_asset'] else 'does not carry XXX',
                               {a: d['market_value'] for a, d in pf.portfolio_to_dict().items()}), sp)
        after = snap()
        if after != before:
            raise Violation('C15', 'partial-update/update/negative-mark/real-handler', 'the update refused for the negative quote of EQ:XXX '
                            'changed state: %s -> %s' % (before, after), sp)
    finally:
        shutil.rmtree(d1, ignore_errors=True)
        shutil.rmtree(d2, ignore_errors=True)


def shard_broker(spec, acc, prop, faults):
    rng = random.Random(spec['rng'])
    import time
    t_end = time.time() + spec['budget_s']
    for i in range(spec['cases']):
        if time.time() > t_end:
            acc.count('stopped_on_time_budget')
            break
        nops = rng.choice([10, 20, 40, 40, 80, 120, 200])
        generate_and_run(rng, acc, prop, faults, nops)
    if prop == 'C02':
        for i in range(spec['cases']):
            sp = aborted_update_script(rng)
            try:
                aborted_update_case(sp, acc, prop='C02')
            except Violation as v:
                acc.violation(v, {'aborted_update': sp, 'prop': 'C02'})
    if prop == 'C15':
        for i in range(max(4, spec['cases'] // 3)):
            sp = negative_mark_script(rng)
            try:
                negative_mark_case(sp, acc)
            except Violation as v:
                acc.violation(v, {'negative_mark': sp})
    if prop == 'C04':
        for i in range(spec['cases'] * 2):
            sp = late_quote_script(rng)
            try:
                late_quote_case(sp, acc)
            except Violation as v:
                acc.violation(v, {'late_quote': sp})
    if prop in ('C04', 'C05'):
        for i in range(max(3, spec['cases'] // 4)):
            sp = real_handler_script(rng)
            try:
                real_handler_case(sp, acc, prop)
            except Violation as v:
                acc.violation(v, {'real_handler': sp, 'prop': prop})
    if prop == 'C05':
        for i in range(spec['cases'] * 2):
            sp = aborted_update_script(rng)
            try:
                aborted_update_case(sp, acc)
            except Violation as v:
                acc.violation(v, {'aborted_update': sp})
        for i in range(spec['cases'] * 6):
            try:
                symmetry_pair(rng, acc)
                if i % 3 == 0:
                    symmetry_pair(rng, acc, replay_of=symmetry_pair.last)     # same trade, other rates, same process
                    acc.count('C05:same_trade_under_another_fee_schedule')
            except Violation as v:
                acc.violation(v, v.witness)
    acc.count('contract_evaluations', CONTRACT_EVALS['n'])
    acc.count('hook:transact_asset', _Instr.hits['transact_asset'])
    acc.count('hook:cash_write', _Instr.hits['cash_write'])
    acc.count('hook:master_write', _Instr.hits['master_write'])


def replay_symmetry(case, acc):
    class R(object):
        """rng stub that replays the recorded draw"""
    install()
    from qstrader.broker.simulated_broker import SimulatedBroker
    from qstrader.exchange.simulated_exchange import SimulatedExchange
    from qstrader.broker.fee_model.percent_fee_model import PercentFeeModel
    from qstrader.execution.order import Order
    price, qty, (c, x) = case['price'], case['qty'], case['rates']
    t = ts(MON_OPEN)
    book = QuoteBook()
    book.now = t
    book.set('EQ:X', price - 0.25, price)
    book.set('EQ:Y', price, price + 0.25)
    broker = SimulatedBroker(t, SimulatedExchange(t), book, initial_funds=1e9,
                             fee_model=PercentFeeModel(commission_pct=c, tax_pct=x))
    broker.create_portfolio('P')
    broker.subscribe_funds_to_portfolio('P', 1e9)
    del _Instr.txns[:]
    broker.submit_order('P', Order(t, 'EQ:X', qty, order_id='buy'))
    broker.submit_order('P', Order(t, 'EQ:Y', -qty, order_id='sell'))
    broker.update(t)
    by = {d['order_id']: d for d in _Instr.txns}
    cb, cs = by['buy']['commission'], by['sell']['commission']
    acc.count('C05:symmetry_pairs')
    if abs(cb - cs) > 1e-12 * max(abs(cb), abs(cs), 1e-300):
        acc.violation(Violation('C05', 'commission-asymmetric', 'buy charged %r, sell charged %r' % (cb, cs), case), case)
