"""
W-SIZER: direct calls of the two order sizers through a real broker/portfolio
(so equity and the fee model are the real ones) with a harness-owned price
handler. Oracles for C10 (long-only) and C11 (long/short) in exact rationals.
"""
import json
import math
import random
import time
from fractions import Fraction

import numpy as np
import pandas as pd

from qsmon import brokerwl as bw
from qsmon import core
from qsmon.core import F, Violation

NAN = float('nan')


class PriceBook(object):
    def __init__(self, prices):
        self.p = prices
        self.reads = []

    def get_asset_latest_ask_price(self, dt, asset):
        self.reads.append((dt, asset))
        return self.p[asset]

    get_asset_latest_bid_price = get_asset_latest_ask_price

    def get_asset_latest_bid_ask_price(self, dt, asset):
        return (self.p[asset], self.p[asset])

    def get_asset_latest_mid_price(self, dt, asset):
        return self.p[asset]


def make_broker(case):
    from qstrader.broker.simulated_broker import SimulatedBroker
    from qstrader.exchange.simulated_exchange import SimulatedExchange
    from qstrader.broker.fee_model.zero_fee_model import ZeroFeeModel
    from qstrader.broker.fee_model.percent_fee_model import PercentFeeModel
    t = bw.ts('2021-03-03 15:00:00')
    book = PriceBook(dict(case['prices']))
    fee = case['fee']
    late = fee[0] != 'zero' and (hash_of(case) % 3 == 0)
    if fee[0] == 'zero':
        fm = ZeroFeeModel()
    elif late:
        fm = PercentFeeModel(commission_pct=0.04, tax_pct=0.01)      # provisional rates, revised below on the same object
    else:
        fm = PercentFeeModel(commission_pct=fee[1], tax_pct=fee[2])
    broker = SimulatedBroker(t, SimulatedExchange(t), book, initial_funds=case['equity'], fee_model=fm)
    broker.create_portfolio('P')
    broker.subscribe_funds_to_portfolio('P', case['equity'])
    if late:
        fm.commission_pct, fm.tax_pct = fee[1], fee[2]              # the caller's fee model, revised after the broker has it
    return broker, book, t


def hash_of(case):
    return int(sum(ord(ch) for ch in json.dumps(case['prices'], sort_keys=True)))


def scribble(res):
    """What the caller does with a target portfolio it was given is its own business: overwrite every entry."""
    try:
        for a in list(res):
            if isinstance(res[a], dict):
                res[a]['quantity'] = 250
                res[a]['scribbled'] = True
    except Exception:
        pass


def frate(fee):
    return Fraction(0) if fee[0] == 'zero' else F(fee[1]) + F(fee[2])


def wsum_is_zero(total):
    return abs(total) <= Fraction(1, 10 ** 8)


def int_like(q):
    return isinstance(q, (int, np.integer)) and not isinstance(q, bool)


# ---------------------------------------------------------------------------
# C10
# ---------------------------------------------------------------------------

def verify_c10(case, E, res, acc):
    """The long-only rules on one sizing result (weights, prices, buffer, fee from `case`; equity E as observed)."""
    w = dict(case['weights'])
    if set(res) != set(w):
        raise Violation('C10', 'target-keys', 'target keys %s != weight keys %s' % (sorted(res), sorted(w)), {})
    f = frate(case['fee'])
    budget = F(E) * (1 - F(case['buffer']))
    total = sum(F(x) for x in w.values())
    zero = wsum_is_zero(total)
    all_zero = all(x == 0 for x in w.values())
    spent = Fraction(0)
    for a, x in w.items():
        q = res[a]['quantity'] if isinstance(res[a], dict) else res[a]
        p = F(case['prices'][a])
        if not int_like(q):
            raise Violation('C10', 'non-integral', 'quantity of %s is %r (%s)' % (a, q, type(q).__name__), {})
        if q < 0:
            raise Violation('C10', 'negative-quantity', 'quantity of %s is %r' % (a, q), {})
        share = F(x) if zero else F(x) / total
        alloc = budget * share
        afford = alloc * (1 - f) / p
        cands = core.floor_candidates(afford)
        if len(cands) > 1:
            acc.count('ambiguous_boundary')
        acc.count('C10:quantities_checked')
        if q not in cands:
            cost = q * p + f * alloc
            if cost > alloc:
                key = 'over-budget'
                msg = 'costs %r + fees > allocation %r' % (float(cost), float(alloc))
            elif (q + 1) * p + f * alloc <= alloc:
                key = 'one-more-fits'
                msg = 'one more share would still fit (%r <= %r)' % (float((q + 1) * p + f * alloc), float(alloc))
            else:
                key = 'quantity'
                msg = 'differs from floor'
            raise Violation('C10', key, 'asset %s weight %r: quantity %r, %s; floor(allocation x (1-fee) / price) = %s '
                            '(equity %r, buffer %r, fee %s, price %r)'
                            % (a, x, q, msg, sorted(cands), E, case['buffer'], case['fee'], case['prices'][a]), {})
        spent += q * p + f * alloc
        if all_zero and q != 0:
            raise Violation('C10', 'zero-weights-nonzero-target', 'all-zero weights gave %s' % (res,), {})
    if spent > budget * (1 + Fraction(core.REL)) + Fraction(1, 10 ** 6) and not zero:
        raise Violation('C10', 'total-over-budget', 'whole target costs %r > (1-buffer) x equity = %r'
                        % (float(spent), float(budget)), {})
    acc.count('C10:calls_checked')
    if all_zero:
        acc.count('C10:all_zero_weight_calls')


def check_c10(case, acc):
    from qstrader.portcon.order_sizer.dollar_weighted import DollarWeightedCashBufferedOrderSizer as Sizer
    broker, book, t = make_broker(case)
    inv = case.get('invalid')
    w = dict(case['weights'])
    try:
        sizer = Sizer(broker, 'P', book, cash_buffer_percentage=case['buffer'])
    except ValueError:
        if inv == 'bad_buffer':
            acc.count('C10:rejections/bad_buffer')
            return
        raise Violation('C10', 'valid-buffer-rejected', 'buffer %r rejected' % case['buffer'], {})
    except Exception as e:
        raise Violation('C10', 'reject-wrong-type/%s' % type(e).__name__, 'buffer %r raised %r' % (case['buffer'], e), {})
    if inv == 'bad_buffer':
        raise Violation('C10', 'bad-buffer-accepted', 'cash buffer %r outside [0,1] was accepted' % case['buffer'], {})
    E = broker.get_portfolio_total_equity('P')
    try:
        res = sizer(t, w)
    except ValueError as e:
        if inv in ('neg_weight', 'nan_price'):
            acc.count('C10:rejections/%s' % inv)
            return
        raise Violation('C10', 'valid-input-rejected', 'valid sizing request raised %r' % (e,), {})
    except Exception as e:
        raise Violation('C10', 'raised/%s' % type(e).__name__, 'sizing raised %r' % (e,), {})
    if inv == 'neg_weight':
        raise Violation('C10', 'negative-weight-accepted', 'a negative weight was accepted: %s -> %s' % (w, res), {})
    if inv == 'nan_price':
        raise Violation('C10', 'nan-price-accepted', 'a NaN price was accepted: %s' % (res,), {})
    verify_c10(case, E, res, acc)
    scribble(res)
    # the same sizer object is asked again: same assets, other weights (and prices), sometimes through the SAME dict
    # object changed in place - nothing may be remembered from the previous call
    for step in case.get('more', []):
        if step.get('in_place'):
            w.clear()
            w.update(step['weights'])
            arg = w
        else:
            arg = dict(step['weights'])
        book.p.update(step['prices'])
        sub = dict(case, weights=dict(step['weights']), prices=dict(case['prices'], **step['prices']))
        if step.get('new_buffer') is not None:
            # the class documents that the buffer "can be modified": the attribute is re-assigned on the live sizer
            sizer.cash_buffer_percentage = step['new_buffer']
            case = dict(case, buffer=step['new_buffer'])          # ... and stays in force for the later calls
            sub['buffer'] = step['new_buffer']
            acc.count('C10:calls_after_the_buffer_was_reassigned')
        try:
            res = sizer(t, arg)
        except Exception as e:
            raise Violation('C10', 'repeat-call-raised/%s' % type(e).__name__, 'second call on the same sizer raised %r' % (e,), {})
        try:
            verify_c10(sub, E, res, acc)
        except Violation as v:
            raise Violation('C10', 'repeat-call/' + v.key, 'on a LATER call of the same sizer object%s: %s'
                            % (' (same dict changed in place)' if step.get('in_place') else '', v.msg), {})
        scribble(res)
        acc.count('C10:repeat_calls_checked')


# ---------------------------------------------------------------------------
# C11
# ---------------------------------------------------------------------------

def verify_c11(case, E, res, acc):
    w = dict(case['weights'])
    L = case['leverage']
    if set(res) != set(w):
        raise Violation('C11', 'target-keys', 'target keys %s != weight keys %s' % (sorted(res), sorted(w)), {})
    f = frate(case['fee'])
    gross = sum(abs(F(x)) for x in w.values())
    zero = wsum_is_zero(gross)
    exposure = Fraction(0)
    for a, x in w.items():
        q = res[a]['quantity'] if isinstance(res[a], dict) else res[a]
        p = F(case['prices'][a])
        if not int_like(q):
            raise Violation('C11', 'non-integral', 'quantity of %s is %r (%s)' % (a, q, type(q).__name__), {})
        if q != 0 and (q > 0) != (x > 0):
            raise Violation('C11', 'sign', 'asset %s weight %r got quantity %r' % (a, x, q), {})
        sw = F(x) if zero else F(x) * F(L) / gross
        alloc = F(E) * sw
        after = alloc - f * abs(alloc)              # signed after-cost dollars
        A = abs(after)
        cands = set()
        for d in core.trunc_candidates(after):
            cands |= core.trunc_candidates(Fraction(d) / p)
        if len(cands) > 1:
            acc.count('ambiguous_boundary')
        acc.count('C11:quantities_checked')
        acc.see('C11:sign_cells', 'weight%s' % ('+' if x > 0 else '-' if x < 0 else '0'))
        if q not in cands:
            if abs(q) * p > A * (1 + Fraction(core.REL)):
                key, msg = 'over-allocation', '|q| x price = %r exceeds the after-fee allocation %r' % (float(abs(q) * p), float(A))
            elif (abs(q) + 1) * p <= A - 1:
                key, msg = 'not-largest', 'one more unit would still fit within %r' % float(A)
            else:
                key, msg = 'truncation', 'not the truncation toward zero'
            raise Violation('C11', key, 'asset %s weight %r: quantity %r, %s; trunc(trunc(after-fee dollars)/price) = %s '
                            '(equity %r, leverage %r, fee %s, price %r)'
                            % (a, x, q, msg, sorted(cands), E, L, case['fee'], case['prices'][a]), {})
        exposure += abs(q) * p
    bound = (gross if zero else F(L)) * F(E) * (1 + f)
    if exposure > bound * (1 + Fraction(core.REL)) + Fraction(1, 10 ** 6):
        raise Violation('C11', 'gross-exposure', 'sum |q| x price = %r exceeds L x equity x (1+f) = %r'
                        % (float(exposure), float(bound)), {})
    acc.count('C11:calls_checked')


def check_c11(case, acc):
    from qstrader.portcon.order_sizer.long_short import LongShortLeveragedOrderSizer as Sizer
    broker, book, t = make_broker(case)
    inv = case.get('invalid')
    w = dict(case['weights'])
    L = case['leverage']
    try:
        sizer = Sizer(broker, 'P', book, gross_leverage=L)
    except ValueError:
        if inv == 'bad_leverage':
            acc.count('C11:rejections/bad_leverage')
            return
        raise Violation('C11', 'valid-leverage-rejected', 'leverage %r rejected' % L, {})
    except Exception as e:
        raise Violation('C11', 'reject-wrong-type/%s' % type(e).__name__, 'leverage %r raised %r' % (L, e), {})
    if inv == 'bad_leverage':
        raise Violation('C11', 'bad-leverage-accepted', 'gross leverage %r was accepted' % L, {})
    E = broker.get_portfolio_total_equity('P')
    try:
        res = sizer(t, w)
    except ValueError as e:
        if inv == 'nan_price':
            acc.count('C11:rejections/nan_price')
            return
        raise Violation('C11', 'valid-input-rejected', 'valid sizing request raised %r' % (e,), {})
    except Exception as e:
        raise Violation('C11', 'raised/%s' % type(e).__name__, 'sizing raised %r' % (e,), {})
    if inv == 'nan_price':
        raise Violation('C11', 'nan-price-accepted', 'a NaN price was accepted: %s' % (res,), {})
    verify_c11(case, E, res, acc)
    scribble(res)
    for step in case.get('more', []):
        if step.get('in_place'):
            w.clear()
            w.update(step['weights'])
            arg = w
        else:
            arg = dict(step['weights'])
        book.p.update(step['prices'])
        sub = dict(case, weights=dict(step['weights']), prices=dict(case['prices'], **step['prices']))
        try:
            res = sizer(t, arg)
        except Exception as e:
            raise Violation('C11', 'repeat-call-raised/%s' % type(e).__name__, 'second call on the same sizer raised %r' % (e,), {})
        try:
            verify_c11(sub, E, res, acc)
        except Violation as v:
            raise Violation('C11', 'repeat-call/' + v.key, 'on a LATER call of the same sizer object%s: %s'
                            % (' (same dict changed in place)' if step.get('in_place') else '', v.msg), {})
        scribble(res)
        acc.count('C11:repeat_calls_checked')


# ---------------------------------------------------------------------------
# the sizer as wired by the public entry points (QuantTradingSystem via BacktestTradingSession)
# ---------------------------------------------------------------------------

def check_wired(case, acc, prop):
    """Size through session.qts: the configured buffer / leverage must be the one that is applied."""
    from qsmon import sesswl
    sesswl.hook()
    from qstrader.trading.backtest import BacktestTradingSession
    from qstrader.asset.universe.static import StaticUniverse
    from qstrader.alpha_model.fixed_signals import FixedSignalsAlphaModel
    from qstrader.broker.fee_model.zero_fee_model import ZeroFeeModel
    from qstrader.broker.fee_model.percent_fee_model import PercentFeeModel
    long_only = prop == 'C10'
    book = PriceBook(dict(case['prices']))
    fee = case['fee']
    fm = ZeroFeeModel() if fee[0] == 'zero' else PercentFeeModel(commission_pct=fee[1], tax_pct=fee[2])
    start, end = bw.ts('2021-03-01 00:00:00'), bw.ts('2021-03-31 23:59:00')
    kw = {'cash_buffer_percentage': case['buffer']} if long_only else {'gross_leverage': case['leverage']}
    def make(kw_):
        return BacktestTradingSession(start, end, StaticUniverse(sorted(case['weights'])), FixedSignalsAlphaModel(dict(case['weights'])),
                                      initial_cash=case['equity'], rebalance='daily', long_only=long_only, fee_model=fm,
                                      data_handler=book, **kw_)
    bad = None
    if 'wired_invalid' in case:
        bad = {'cash_buffer_percentage': case['wired_invalid']} if long_only else {'gross_leverage': case['wired_invalid']}
    if bad is not None:
        try:
            make(bad)
        except ValueError:
            acc.count('%s:wired_rejections' % prop)
            return
        except Exception as e:
            raise Violation(prop, 'wired/reject-wrong-type/%s' % type(e).__name__, 'BacktestTradingSession(%s) raised %r' % (bad, e), {})
        raise Violation(prop, 'wired/invalid-parameter-accepted', 'BacktestTradingSession(%s) was accepted: the invalid value never '
                        'reached the sizer\'s own check' % (bad,), {})
    sess = make(kw)
    tr = sesswl.Trace()
    sesswl.CUR[0] = tr
    try:
        sess.qts.portfolio_construction_model(bw.ts('2021-03-03 21:00:00'))
    finally:
        sesswl.CUR[0] = None
    if not tr.sizer:
        raise Violation(prop, 'wired/no-sizing', 'the session\'s trading system never called a sizer', {})
    dt, w_in, target = tr.sizer[-1]
    E = sess.broker.get_portfolio_total_equity(sess.portfolio_id)
    sub = dict(case, weights=w_in)
    try:
        (verify_c10 if long_only else verify_c11)(sub, E, target, acc)
    except Violation as v:
        raise Violation(prop, 'wired/' + v.key, 'through BacktestTradingSession(%s): %s' % (kw, v.msg), {})
    acc.count('%s:wired_calls_checked' % prop)
    acc.see('%s:wired_parameter_values' % prop, case['buffer'] if long_only else case['leverage'])


def check_csv_instants(acc, prop, rng):
    """
    The sizer over a real CSV data source at instants strictly between price rows (mid-session, overnight, pre-market):
    the sizing price is the market's latest price at that instant (point-in-time oracle over the written rows).
    """
    import os, shutil, tempfile, datetime as dt_
    from qsmon import datawl, cal
    from qstrader.data.daily_bar_csv import CSVDailyBarDataSource
    from qstrader.data.backtest_data_handler import BacktestDataHandler
    from qstrader.broker.simulated_broker import SimulatedBroker
    from qstrader.exchange.simulated_exchange import SimulatedExchange
    from qstrader.portcon.order_sizer.dollar_weighted import DollarWeightedCashBufferedOrderSizer
    from qstrader.portcon.order_sizer.long_short import LongShortLeveragedOrderSizer
    d = tempfile.mkdtemp(prefix='qsmon-sizer-')
    try:
        used = set()
        rows = {s_: datawl.gen_rows(rng, used, n=8, start=dt_.date(2021, 3, 1)) for s_ in ('AA', 'BB')}
        for s_, rr in rows.items():
            for r in rr:
                r['open'] = r['open'] or 31.5
                r['close'] = r['close'] or 29.25
                r['adj'] = r['close']
            datawl.write_csv(os.path.join(d, s_ + '.csv'), rr, list(range(len(rr))))
        src = CSVDailyBarDataSource(d, None, adjust_prices=False)
        handler = BacktestDataHandler(None, data_sources=[src])
        ev = {'EQ:' + s_: datawl.events(rr, False) for s_, rr in rows.items()}
        t0 = bw.ts('2021-03-01 09:00:00')
        equity = float(rng.choice([1e5, 2.5e6]))
        broker = SimulatedBroker(t0, SimulatedExchange(t0), handler, initial_funds=equity)
        broker.create_portfolio('P')
        broker.subscribe_funds_to_portfolio('P', equity)
        if prop == 'C10':
            buffer = rng.choice([0.0, 0.05, 0.2])
            sizer = DollarWeightedCashBufferedOrderSizer(broker, 'P', handler, cash_buffer_percentage=buffer)
            w = {'EQ:AA': 0.6, 'EQ:BB': 0.4}
        else:
            sizer = LongShortLeveragedOrderSizer(broker, 'P', handler, gross_leverage=1.0)
            w = {'EQ:AA': 0.5, 'EQ:BB': -0.5}
        last = max(e[-1][0] for e in ev.values())
        first = max(e[0][0] for e in ev.values())
        for _ in range(6):
            t = first + (last - first) * rng.random()
            t = t.replace(microsecond=0)
            prices = {}
            for a in w:
                q, _e = datawl.expected(ev[a], t)
                prices[a] = float(q)
            res = sizer(pd.Timestamp(t), dict(w))
            case = {'prices': prices, 'fee': ['zero'], 'weights': w, 'buffer': buffer if prop == 'C10' else None, 'leverage': 1.0}
            try:
                (verify_c10 if prop == 'C10' else verify_c11)(case, equity, res, acc)
            except Violation as v:
                raise Violation(prop, 'csv-instant/' + v.key, 'sizing at %s over a CSV source (latest prices at that instant %s): %s'
                                % (t, prices, v.msg), {})
            acc.count('%s:csv_instant_calls' % prop)
    finally:
        shutil.rmtree(d, ignore_errors=True)


def check_csv_gap(acc, prop, rng):
    """A real CSV source whose leading rows have blank prices: sizing inside that gap must be rejected (NaN price)."""
    import os, shutil, tempfile
    from qsmon import datawl
    from qstrader.data.daily_bar_csv import CSVDailyBarDataSource
    from qstrader.data.backtest_data_handler import BacktestDataHandler
    from qstrader.portcon.order_sizer.dollar_weighted import DollarWeightedCashBufferedOrderSizer
    from qstrader.portcon.order_sizer.long_short import LongShortLeveragedOrderSizer
    d = tempfile.mkdtemp(prefix='qsmon-sizer-')
    try:
        rows = [{'date': '2021-03-%02d' % day, 'open': None if i < 2 else 50.0 + i, 'close': None if i < 2 else 51.0 + i,
                 'adj': None if i < 2 else 51.0 + i} for i, day in enumerate([1, 2, 3, 4, 5, 8])]
        datawl.write_csv(os.path.join(d, 'LATE.csv'), rows, list(range(len(rows))))
        rows2 = [{'date': '2021-03-%02d' % day, 'open': 20.0 + i, 'close': 20.5 + i, 'adj': 20.5 + i}
                 for i, day in enumerate([1, 2, 3, 4, 5, 8])]
        datawl.write_csv(os.path.join(d, 'OK.csv'), rows2, list(range(len(rows2))))
        # a third asset that sorts before the unpriced one and doubles every day: what was looked up for it during a refused
        # call is not its price at the next call
        aaa = [10.0, 20.0, 40.0, 80.0, 160.0, 320.0]
        rows3 = [{'date': '2021-03-%02d' % day, 'open': aaa[i], 'close': aaa[i], 'adj': aaa[i]}
                 for i, day in enumerate([1, 2, 3, 4, 5, 8])]
        datawl.write_csv(os.path.join(d, 'AAA.csv'), rows3, list(range(len(rows3))))
        src = CSVDailyBarDataSource(d, None, adjust_prices=rng.random() < 0.5)
        handler = BacktestDataHandler(None, data_sources=[src])
        case = {'prices': {}, 'equity': 1e6, 'fee': ['zero']}
        from qstrader.broker.simulated_broker import SimulatedBroker
        from qstrader.exchange.simulated_exchange import SimulatedExchange
        t0 = bw.ts('2021-03-01 09:00:00')
        broker = SimulatedBroker(t0, SimulatedExchange(t0), handler, initial_funds=1e6)
        broker.create_portfolio('P')
        broker.subscribe_funds_to_portfolio('P', 1e6)
        if prop == 'C10':
            sizer = DollarWeightedCashBufferedOrderSizer(broker, 'P', handler, cash_buffer_percentage=0.05)
            w = {'EQ:AAA': 0.3, 'EQ:LATE': 0.3, 'EQ:OK': 0.4}
            share = {a: 1e6 * 0.95 * x for a, x in w.items()}
        else:
            sizer = LongShortLeveragedOrderSizer(broker, 'P', handler, gross_leverage=1.0)
            w = {'EQ:AAA': 0.25, 'EQ:LATE': -0.5, 'EQ:OK': 0.25}
            share = {a: 1e6 * abs(x) for a, x in w.items()}

        def within_budget(when, res, i):
            # closes of row i: what each unit costs at this instant (zero fees, nothing held, equity 1e6)
            px = {'EQ:AAA': aaa[i], 'EQ:LATE': 51.0 + i, 'EQ:OK': 20.5 + i}
            for a, x in w.items():
                q = res[a]['quantity']
                if q * x < 0 or abs(q) * px[a] > share[a] + 1e-6 or (abs(q) + 2) * px[a] < share[a] - 1.0:
                    raise Violation(prop, 'csv-gap/size-after-refused-calls', 'at %s, after sizing calls refused inside the gap, %s is '
                                    'sized at %r units of %.2f = %.2f; its share of the budget is %.2f'
                                    % (when, a, q, px[a], abs(q) * px[a], share[a]), {})
            acc.count('%s:sizings_after_refused_calls_judged' % prop)
        for when in ('2021-03-01 21:00:00', '2021-03-02 14:30:00', '2021-03-02 21:00:00'):
            try:
                res = sizer(bw.ts(when), dict(w))
            except ValueError:
                acc.count('%s:rejections/nan_price_from_csv' % prop)
                continue
            raise Violation(prop, 'nan-price-accepted/csv-gap', 'sizing at %s, while EQ:LATE has only blank prices so far, '
                            'returned %s instead of raising' % (when, res), {})
        res = sizer(bw.ts('2021-03-03 21:00:00'), dict(w))     # first real price: must size
        if res['EQ:LATE']['quantity'] == 0:
            raise Violation(prop, 'csv-gap/no-size-after-gap', 'no quantity once prices exist: %s' % (res,), {})
        within_budget('2021-03-03 21:00:00', res, 2)
        within_budget('2021-03-04 21:00:00', sizer(bw.ts('2021-03-04 21:00:00'), dict(w)), 3)
        # the same sizer / handler serves the next run of a parameter sweep, which starts inside the gap again: what it
        # answered for a later instant is not a price for the earlier one
        for when in ('2021-03-02 14:30:00', '2021-03-01 21:00:00'):
            try:
                res = sizer(bw.ts(when), dict(w))
            except ValueError:
                acc.count('%s:rejections/nan_price_from_csv_after_later_use' % prop)
                continue
            raise Violation(prop, 'nan-price-accepted/csv-gap-after-later-use', 'sizing at %s, while EQ:LATE has only blank prices so '
                            'far (the handler had served a later instant before), returned %s instead of raising' % (when, res), {})
    finally:
        shutil.rmtree(d, ignore_errors=True)


def check_csv_partition(acc, prop, rng):
    """Two real CSV sources over ONE directory, each restricted to its own list of symbols (a computed partition, one side
    of which may be empty): an asset that was given to no source has no price - sizing it must be rejected -, and every
    other asset is sized at the price of the source it was given to."""
    import os, shutil, tempfile
    from qsmon import datawl
    from qstrader.data.daily_bar_csv import CSVDailyBarDataSource
    from qstrader.data.backtest_data_handler import BacktestDataHandler
    from qstrader.broker.simulated_broker import SimulatedBroker
    from qstrader.exchange.simulated_exchange import SimulatedExchange
    from qstrader.portcon.order_sizer.dollar_weighted import DollarWeightedCashBufferedOrderSizer
    from qstrader.portcon.order_sizer.long_short import LongShortLeveragedOrderSizer
    d = tempfile.mkdtemp(prefix='qsmon-sizer-')
    try:
        days = [1, 2, 3, 4, 5, 8]
        unserved = rng.choice(['CC', 'AAX', 'BB.L'])      # given to neither source; its name may begin with a served symbol
        for k, sym in enumerate(('AA', 'BB', unserved)):
            rows = [{'date': '2021-03-%02d' % day, 'open': 20.0 + 7 * k + i, 'close': 20.5 + 7 * k + i, 'adj': (20.5 + 7 * k + i) / 2.0}
                    for i, day in enumerate(days)]
            datawl.write_csv(os.path.join(d, sym + '.csv'), rows, list(range(len(rows))))
        adjusted_side = rng.choice([[], [], ['BB']])            # the symbols that need adjusted prices: often none
        raw_side = [s_ for s_ in ('AA', 'BB') if s_ not in adjusted_side]       # the third file is given to neither
        sources = [CSVDailyBarDataSource(d, None, csv_symbols=list(adjusted_side), adjust_prices=True),
                   CSVDailyBarDataSource(d, None, csv_symbols=tuple(raw_side) if rng.random() < 0.5 else list(raw_side), adjust_prices=False)]
        handler = BacktestDataHandler(None, data_sources=sources)
        t0 = bw.ts('2021-03-01 09:00:00')
        broker = SimulatedBroker(t0, SimulatedExchange(t0), handler, initial_funds=1e6)
        broker.create_portfolio('P')
        broker.subscribe_funds_to_portfolio('P', 1e6)
        if prop == 'C10':
            sizer = DollarWeightedCashBufferedOrderSizer(broker, 'P', handler, cash_buffer_percentage=0.0)
            sign = 1.0
        else:
            sizer = LongShortLeveragedOrderSizer(broker, 'P', handler, gross_leverage=1.0)
            sign = -1.0
        i = rng.choice([1, 2, 3])
        when = bw.ts('2021-03-%02d 21:00:00' % days[i])
        try:
            res = sizer(when, {'EQ:AA': 0.5, 'EQ:' + unserved: sign * 0.5})
        except ValueError:
            acc.count('%s:rejections/asset_given_to_no_source' % prop)
        else:
            raise Violation(prop, 'nan-price-accepted/asset-given-to-no-source', 'two CSV sources over one directory restricted to %s '
                            'and %s: EQ:%s was given to neither, sizing it at %s returned %s instead of raising'
                            % (adjusted_side, raw_side, unserved, when, res), {})
        res = sizer(when, {'EQ:AA': 0.5, 'EQ:BB': sign * 0.5})
        price = {'EQ:AA': 20.5 + i, 'EQ:BB': (27.5 + i) / (2.0 if 'BB' in adjusted_side else 1.0)}
        for a, x in (('EQ:AA', 0.5), ('EQ:BB', sign * 0.5)):
            want = int(abs(x) * 1e6 / price[a]) * (1 if x > 0 else -1)
            if res[a]['quantity'] != want:
                raise Violation(prop, 'csv-partition/quantity', 'two CSV sources over one directory restricted to %s (adjusted) and %s '
                                '(raw): %s sized at %s gives %s, the price of the source it was given to (%r) gives %d'
                                % (adjusted_side, raw_side, a, when, res[a], price[a], want), {})
        acc.count('%s:csv_partition_calls' % prop)
    finally:
        shutil.rmtree(d, ignore_errors=True)


# ---------------------------------------------------------------------------
# generation
# ---------------------------------------------------------------------------

def gen_case(rng, long_only):
    n = rng.randint(1, 8)
    assets = ['EQ:A%d' % i for i in range(n)]
    prices = {}
    for a in assets:
        prices[a] = bw.rand_price(rng) if rng.random() < 0.8 else float(rng.randint(1, 500))
    eq_kind = rng.random()
    equity = float(rng.choice([1e2, 1e4, 1e6, 1e9])) if eq_kind < 0.4 else round(10 ** rng.uniform(2, 9), rng.choice([0, 2, 6]))
    fr = rng.random()
    if fr < 0.35:
        fee = ['zero']
    else:
        c = rng.choice([0.0, 1e-4, 0.001, 0.005, 0.05, 0.3, round(rng.random() * 0.5, 5)])
        t = rng.choice([0.0, 0.0, 0.005, 0.05, round(rng.random() * 0.5, 5)])
        fee = ['pct', c, t]

    def wt():
        r = rng.random()
        if r < 0.15:
            return 0.0
        if r < 0.3:
            return 1.0
        if r < 0.5:
            return rng.randint(1, 10) / 10.0
        if r < 0.9:
            return rng.uniform(0, 3)
        return rng.choice([1e-6, 1e3, 0.3333333333333333])
    w = {a: wt() for a in assets}
    shape = rng.random()
    if shape < 0.08:
        w = {a: 0.0 for a in assets}
    elif shape < 0.12:
        w = {a: rng.choice([0.0, 1e-13]) for a in assets}
    if shape >= 0.12 and rng.random() < 0.08:
        # plain integer signals (+1 / -1 / 0 / 2), as a rule-based model may return them
        w = {a: rng.choice([1, 1, 2, 0]) for a in assets}
        if all(v == 0 for v in w.values()):
            w[assets[0]] = 1
        int_w = True
    else:
        int_w = False
    near = shape >= 0.12 and rng.random() < 0.12 and not int_w
    if near:
        equity = float(rng.choice([2.5e8, 1e9, 7.5e8]))       # large enough for 1e-5 of the allocation to be many shares
    case = {'prices': prices, 'equity': equity, 'fee': fee, 'weights': w}
    if long_only:
        case['buffer'] = rng.choice([0.0, 0.05, 0.05, 1.0, 0.5, round(rng.random(), 4)])
    else:
        case['leverage'] = rng.choice([0.01, 0.5, 1.0, 1.0, 2.0, 5.0, round(rng.uniform(0.05, 6), 3)])
        for a in assets:
            if rng.random() < 0.5:
                w[a] = -w[a]
        if int_w:
            case['integer_weights'] = True
        if shape >= 0.12 and rng.random() < 0.1 and n >= 2:
            # zero NET but non-zero gross exposure
            w[assets[0]], w[assets[1]] = 0.5, -0.5
    if near and any(x != 0 for x in w.values()):
        # weights that are ALMOST normalised (to 1, or to the leverage): normalised by hand and truncated to 5-6 decimals
        target = 1.0 if long_only else case['leverage']
        g = sum(abs(x) for x in w.values())
        nd = rng.choice([5, 5, 6])
        for a in w:
            w[a] = round(w[a] * target / g, nd)
        k0 = sorted(w)[0]
        if sum(abs(x) for x in w.values()) == target:
            w[k0] += 10.0 ** -nd * (1 if w[k0] >= 0 else -1)
        case['near_normalised'] = True
    if rng.random() < 0.06 and 'near_normalised' not in case:
        # one expensive asset whose allocation is a hair (less than 5e-5 of a unit, but more than a currency unit) short
        # of a whole number of units: the quantity is that number minus one
        a0 = assets[0]
        p0 = float(round(10 ** rng.uniform(4.8, 5.7), 2))
        k0 = rng.randint(1, 40)
        short = rng.uniform(1.2, 5e-5 * p0 - 1.2)
        for a in assets:
            w[a] = 0.0
        w[a0] = rng.choice([1.0, 0.37]) if long_only else rng.choice([1.0, -1.0, 0.5])
        prices[a0] = p0
        case['fee'] = ['zero']
        if long_only:
            case['buffer'] = 0.0
        else:
            case['leverage'] = 1.0
        case['equity'] = equity = float(round((k0 + 1) * p0 - short, 2))
        case['near_unit'] = True
    if rng.random() < 0.5 and len(w) > 1:
        # the weight dict as an alpha model may build it: keys in no particular order
        ks = list(w)
        rng.shuffle(ks)
        w = {a: w[a] for a in ks}
        case['weights'] = w
        case['shuffled_keys'] = True
    inv = rng.random()
    if inv >= 0.12 and rng.random() < 0.35:
        more = []
        for _ in range(rng.randint(1, 3)):
            w2 = {a: wt() for a in assets}
            if rng.random() < 0.2:
                w2 = {a: 0.0 for a in assets}
            if len(assets) > 1 and rng.random() < 0.4:
                for a in rng.sample(assets, rng.randint(1, len(assets) - 1)):
                    del w2[a]                      # this call names fewer assets than an earlier one
            if not long_only:
                w2 = {a: (-x if rng.random() < 0.5 else x) for a, x in w2.items()}
            p2 = {a: (bw.rand_price(rng) if rng.random() < 0.3 else prices[a]) for a in assets}
            if not long_only:
                pass
            step_ = {'weights': w2, 'prices': p2, 'in_place': rng.random() < 0.5}
            if long_only and rng.random() < 0.4:
                step_['new_buffer'] = rng.choice([0.0, 0.05, 0.25, 1.0, round(rng.random(), 3)])
            more.append(step_)
        case['more'] = more
    if inv < 0.12:
        k = rng.choice(['nan_price', 'neg_weight' if long_only else 'bad_leverage',
                        'bad_buffer' if long_only else 'nan_price'])
        case['invalid'] = k
        a = rng.choice(assets)
        if k == 'nan_price':
            prices[a] = NAN
        elif k == 'neg_weight':
            w[a] = -abs(w[a]) - rng.choice([1e-9, 0.1, 2.0])
        elif k == 'bad_buffer':
            case['buffer'] = rng.choice([-0.01, 1.01, 2.0, -1.0, 1.0000001])
        elif k == 'bad_leverage':
            case['leverage'] = rng.choice([0.0, -1.0, -0.001])
    return case


def signature(case, long_only):
    w = case['weights']
    return (long_only, len(w), tuple(sorted((x > 0) - (x < 0) for x in w.values())), case['fee'][0],
            case.get('buffer'), case.get('leverage'), case.get('invalid'),
            int(math.log10(case['equity'])), tuple(round(math.log10(p), 0) if p == p else None for p in case['prices'].values()))


def run_case(case, acc, prop):
    fn = check_c10 if prop == 'C10' else check_c11
    try:
        if case.get('wired'):
            check_wired(case, acc, prop)
        else:
            fn(case, acc)
    except Violation as v:
        v.witness = dict(case)
        acc.violation(v, case)


def shard(spec, acc, prop):
    core.boot()
    rng = random.Random(spec['rng'])
    t_end = time.time() + spec['budget_s']
    long_only = prop == 'C10'
    for i in range(spec['cases']):
        if i % 64 == 0 and time.time() > t_end:
            acc.count('stopped_on_time_budget')
            break
        case = gen_case(rng, long_only)
        if i % 40 == 7 and 'invalid' not in case:
            case.pop('more', None)
            case['wired'] = True
            if long_only and rng.random() < 0.4:
                case['buffer'] = rng.choice([0.0, 1.0])
            if rng.random() < 0.3:
                case['wired_invalid'] = rng.choice([-0.01, 1.01, 2.0]) if long_only else rng.choice([0.0, 0, -1.0, -0.001])
        if i % 400 == 11:
            core.guarded(prop, acc, {'kind': 'csv-gap'}, check_csv_gap, acc, prop, rng)
        if i % 300 == 17:
            core.guarded(prop, acc, {'kind': 'csv-partition'}, check_csv_partition, acc, prop, rng)
        if i % 200 == 5:
            core.guarded(prop, acc, {'kind': 'csv-instants'}, check_csv_instants, acc, prop, rng)
        run_case(case, acc, prop)
        acc.evaluations += 1
        w = case['weights']
        if 'invalid' not in case and len(w) >= 2 and any(x != 0 for x in w.values()) and case['fee'][0] == 'pct':
            acc.nontriv(prop, signature(case, long_only), tuple(sorted(w.items())))
        if i < 2:
            acc.sample(case)
