"""
W-SESSION: full BacktestTradingSession runs over synthetic markets, with a
trace recorded at the client boundary of the real classes, and the monitors
for C08 (reference model), C09 (rebalance-to-target), C14 (schedule, burn-in,
equity, allocation table), C16 (signal feed and definitions), C19 (universe
membership).
"""
import datetime as dt
import importlib.util
import json
import math
import os
import random
import statistics
import time
from fractions import Fraction

import numpy as np
import pandas as pd

from qsmon import brokerwl as bw
from qsmon import cal, core, market, refmodel
from qsmon.core import F, Violation

PID = '000001'


def ts(s):
    return bw.ts(s)


def py(t):
    return pd.Timestamp(t).tz_convert('UTC').to_pydatetime()


# ---------------------------------------------------------------------------
# trace + hooks
# ---------------------------------------------------------------------------

class Trace(object):
    def __init__(self):
        self.now = None
        self.clock = []          # every dt given to broker.update
        self.pcm = []            # dict(dt, held, orders, row, weights, target)
        self.fills = []          # dict(dt, asset, qty, price, commission, order_id)
        self.equity = []         # dict(dt, value, cash, held)
        self.sig_updates = []    # dt
        self.appends = []        # (now, signal name, asset, price)
        self.reads = []          # (now, requested dt, asset, side, value)
        self.universe_calls = 0
        self.error = None
        self.sizer = []
        self.curve_reads = []    # (dt of a rebalance, length of the equity curve read at that moment)


CUR = [None]
_HOOKED = [False]


def hook():
    if _HOOKED[0]:
        return
    core.boot()
    bw.install()
    from qstrader.broker.simulated_broker import SimulatedBroker
    from qstrader.portcon.pcm import PortfolioConstructionModel
    from qstrader.portcon.order_sizer.dollar_weighted import DollarWeightedCashBufferedOrderSizer
    from qstrader.portcon.order_sizer.long_short import LongShortLeveragedOrderSizer
    from qstrader.signals.signals_collection import SignalsCollection
    from qstrader.signals.signal import Signal
    from qstrader.data.daily_bar_csv import CSVDailyBarDataSource
    from qstrader.trading.backtest import BacktestTradingSession
    from qstrader.broker.portfolio.portfolio import Portfolio

    o_update = SimulatedBroker.update

    def update(self, dt):
        tr = CUR[0]
        if tr is not None:
            tr.now = dt
            tr.clock.append(dt)
        return o_update(self, dt)
    SimulatedBroker.update = update

    o_pcm = PortfolioConstructionModel.__call__

    def pcm_call(self, dt, stats=None):
        tr = CUR[0]
        if tr is None:
            return o_pcm(self, dt, stats=stats)
        rec = {'dt': dt, 'held': {a: d['quantity'] for a, d in
                                  self.broker.get_portfolio_as_dict(self.broker_portfolio_id).items()},
               'orders': None, 'row': None, 'weights': None, 'target': None, 'alpha': None,
               'universe': list(self.universe.get_assets(dt)), 'stats_given': stats is not None}
        tr.pcm.append(rec)
        n0 = len(stats['target_allocations']) if stats is not None else 0
        n_s = len(tr.sizer)
        alpha = self.alpha_model
        if alpha is not None:
            def recording_alpha(t, _a=alpha, _r=rec):
                w = _a(t)
                _r['alpha'] = dict(w)
                return w
            self.alpha_model = recording_alpha
        try:
            out = o_pcm(self, dt, stats=stats)
            rec['orders'] = [(o.asset, o.quantity) for o in out]
            rec['order_meta'] = [(o.created_dt, o.direction) for o in out]
            return out
        finally:
            self.alpha_model = alpha
            if stats is not None and len(stats['target_allocations']) > n0:
                rec['row'] = dict(stats['target_allocations'][-1])
            if len(tr.sizer) > n_s:
                rec['weights'], rec['target'] = tr.sizer[-1][1], tr.sizer[-1][2]
    PortfolioConstructionModel.__call__ = pcm_call

    for cls in (DollarWeightedCashBufferedOrderSizer, LongShortLeveragedOrderSizer):
        def mk(orig):
            def sizer_call(self, dt, weights):
                tr = CUR[0]
                w = dict(weights)
                out = orig(self, dt, weights)
                if tr is not None:
                    tr.sizer.append((dt, w, {a: d['quantity'] for a, d in out.items()}))
                    sess_ = getattr(tr, 'session', None)
                    if sess_ is not None and hasattr(sess_, 'get_equity_curve'):
                        # strategy code doing draw-down control reads its own curve while the session runs
                        try:
                            tr.curve_reads.append((dt, len(sess_.get_equity_curve())))
                        except Exception:
                            tr.curve_reads.append((dt, None))      # (an empty curve cannot be framed: not judged)
                return out
            return sizer_call
        cls.__call__ = mk(cls.__call__)

    o_supd = SignalsCollection.update

    def supd(self, dt):
        tr = CUR[0]
        if tr is not None:
            tr.sig_updates.append(dt)
            tr.cur_collection = self
        return o_supd(self, dt)
    SignalsCollection.update = supd

    # observations are recorded where they land (the price buffers): a collection may feed a signal through
    # Signal.append or write to its buffers directly - both deliver the observation
    from qstrader.signals.buffer import AssetPriceBuffers
    o_bapp = AssetPriceBuffers.append

    def bappend(self, asset, price):
        tr = CUR[0]
        if tr is not None:
            tr.appends.append((tr.now, id(self), asset, price))
        return o_bapp(self, asset, price)
    AssetPriceBuffers.append = bappend

    for side in ('get_bid', 'get_ask'):
        def mk2(orig, side):
            def getter(self, dt, asset):
                v = orig(self, dt, asset)
                tr = CUR[0]
                if tr is not None:
                    tr.reads.append((tr.now, dt, asset, side, v))
                return v
            getter.cache_info = getattr(orig, 'cache_info', None)
            return getter
        setattr(CSVDailyBarDataSource, side, mk2(getattr(CSVDailyBarDataSource, side), side))

    o_eq = BacktestTradingSession._update_equity_curve

    def upd_eq(self, dt):
        r = o_eq(self, dt)
        tr = CUR[0]
        if tr is not None:
            p = self.broker.portfolios[self.portfolio_id]
            tr.equity.append({'dt': dt, 'value': self.equity_curve[-1][1] if self.equity_curve else None,
                              'cash': self.broker.get_portfolio_cash_balance(self.portfolio_id),
                              'held': {a: d['quantity'] for a, d in
                                       self.broker.get_portfolio_as_dict(self.portfolio_id).items()}})
        return r
    BacktestTradingSession._update_equity_curve = upd_eq
    _HOOKED[0] = True


# ---------------------------------------------------------------------------
# harness alpha models (user strategy code built on the repository's signals)
# ---------------------------------------------------------------------------

def topn_class():
    path = os.path.join(core.REPO, 'examples', 'momentum_taa.py')
    spec = importlib.util.spec_from_file_location('qsmon_examples_momentum_taa', path)
    mod = importlib.util.module_from_spec(spec)
    spec.loader.exec_module(mod)
    return mod.TopNMomentumAlphaModel


class SMATrendAlpha(object):
    """weight 1 when the fast moving average is above the slow one, else 0 (long/short: -1)."""

    def __init__(self, signals, fast, slow, universe, short=False):
        self.signals, self.fast, self.slow, self.universe, self.short = signals, fast, slow, universe, short

    def __call__(self, dt):
        assets = self.universe.get_assets(dt)
        w = {a: 0.0 for a in assets}
        if self.signals.warmup >= self.slow:
            for a in assets:
                try:
                    up = self.signals['sma'](a, self.fast) > self.signals['sma'](a, self.slow)
                except KeyError:
                    continue
                w[a] = 1.0 if up else (-1.0 if self.short else 0.0)
        return w


class InvVolAlpha(object):
    def __init__(self, signals, lookback, universe):
        self.signals, self.lookback, self.universe = signals, lookback, universe

    def __call__(self, dt):
        assets = self.universe.get_assets(dt)
        w = {a: 0.0 for a in assets}
        if self.signals.warmup >= 2:
            for a in assets:
                try:
                    v = self.signals['vol'](a, self.lookback)
                except KeyError:
                    continue
                w[a] = 1.0 / v if v > 0 else 0.0
        return w


class SwitchAlpha(object):
    """A time-varying model: one weight dict up to an instant, another one afterwards (e.g. a hedge that is dropped)."""

    def __init__(self, first, then, when, pause=None):
        self.first, self.then, self.when, self.pause = first, then, when, pause

    def __call__(self, dt):
        if self.pause is not None and self.pause[0] <= dt < self.pause[1]:
            # the strategy stands aside: everything it ever named gets weight zero (the book goes to cash), then it re-enters
            return {a: 0.0 for a in list(self.first) + list(self.then)}
        return dict(self.first if dt < self.when else self.then)


class MomSignAlpha(object):
    def __init__(self, signals, lookback, universe, watch=()):
        self.signals, self.lookback, self.universe = signals, lookback, universe
        self.watch = list(watch)        # every ticker of the listing table, screened whether or not it is a member yet

    def __call__(self, dt):
        assets = self.universe.get_assets(dt)
        w = {a: 0.0 for a in assets}
        for a in self.watch:
            try:
                self.signals['momentum'](a, self.lookback)        # a ticker without any observation yet: KeyError, skipped
            except KeyError:
                pass
        if self.signals.warmup >= 2:
            for a in assets:
                try:
                    m = self.signals['momentum'](a, self.lookback)
                except KeyError:
                    continue
                w[a] = 1.0 if m > 0 else (-1.0 if m < 0 else 0.0)
        return w


# ---------------------------------------------------------------------------
# building and running one session
# ---------------------------------------------------------------------------

def build(cfg, world, shared=None):
    """Returns (session, signals_by_name). `shared` may carry a data source/handler to reuse."""
    hook()
    from qstrader.asset.universe.static import StaticUniverse
    from qstrader.asset.universe.dynamic import DynamicUniverse
    from qstrader.alpha_model.fixed_signals import FixedSignalsAlphaModel
    from qstrader.alpha_model.single_signal import SingleSignalAlphaModel
    from qstrader.broker.fee_model.zero_fee_model import ZeroFeeModel
    from qstrader.broker.fee_model.percent_fee_model import PercentFeeModel
    from qstrader.data.backtest_data_handler import BacktestDataHandler
    from qstrader.data.daily_bar_csv import CSVDailyBarDataSource
    from qstrader.signals.momentum import MomentumSignal
    from qstrader.signals.sma import SMASignal
    from qstrader.signals.vol import VolatilitySignal
    from qstrader.signals.signals_collection import SignalsCollection
    from qstrader.trading.backtest import BacktestTradingSession

    start, end = ts(cfg['start']), ts(cfg['end'])
    if cfg.get('tz_mix'):
        # the same instants with UTC spelled differently (pytz.UTC for one, datetime.timezone.utc for the other)
        import pytz
        if cfg['tz_mix'] == 'start':
            start = start.tz_convert(pytz.UTC)
        else:
            end = end.tz_convert(pytz.UTC)
    u = cfg['universe']
    if shared is not None and 'universe' in shared:
        universe = shared['universe']          # the same universe object serves several sessions
    elif u['kind'] == 'static':
        universe = StaticUniverse(list(u['assets']))
    elif u.get('user_class'):
        from qstrader.asset.universe.universe import Universe

        class ListingTableUniverse(Universe):
            """A user-defined growing universe (an index-additions table), not derived from DynamicUniverse."""
            def __init__(self, table):
                self.table = table

            def get_assets(self, dt):
                return [a_ for a_, d_ in self.table.items() if d_ is not None and dt >= d_]
        universe = ListingTableUniverse({a: (ts(d) if d else None) for a, d in u['dates'].items()})
    else:
        universe = DynamicUniverse({a: (ts(d) if d else None) for a, d in u['dates'].items()})
    if shared is not None and shared.get('share_universe'):
        shared['universe'] = universe
    if shared is not None and 'source' in shared:
        source = shared['source']
    else:
        source = CSVDailyBarDataSource(world.dir, None, adjust_prices=world.adjust)
        if shared is not None:
            shared['source'] = source
    sources = [source]
    if getattr(world, 'extra', None) is not None:
        # a second, lower-priority source: overlaps the first on some tickers (other prices) and adds one of its own
        if shared is not None and 'source2' in shared:
            sources.append(shared['source2'])
        else:
            src2 = CSVDailyBarDataSource(world.extra.dir, None, adjust_prices=world.extra.adjust)
            sources.append(src2)
            if shared is not None:
                shared['source2'] = src2
    if shared is not None and 'handler' in shared:
        handler = shared['handler']            # the same data handler object serves several sessions
    else:
        handler = BacktestDataHandler(universe, data_sources=sources)
        if shared is not None and shared.get('share_handler'):
            shared['handler'] = handler
    al = cfg['alpha']
    # signals may be built on their own universe (e.g. every candidate plus a reference asset, from the start),
    # different from the universe that is traded and from the data handler's
    sig_universe = universe
    if al.get('signal_universe') == 'static_all':
        sig_universe = StaticUniverse(['EQ:' + s_ for s_ in cfg['market']['assets']])
    signals = None
    sigs = {}
    # the signals may have been created for an inception date before this session's start (members that joined in
    # between are only picked up when the asset lists are next refreshed)
    sig_start = start - pd.Timedelta(days=20) if al.get('early_signals') else start
    if al.get('late_signals'):
        sig_start = start + pd.Timedelta(days=6)
    sig_handler = handler
    if al.get('signal_handler') == 'other_adjust' and getattr(world, 'extra', None) is None:
        # the signals read their closes from their own data handler (same files, the other price-adjustment setting)
        sig_handler = BacktestDataHandler(universe, data_sources=[CSVDailyBarDataSource(world.dir, None, adjust_prices=not world.adjust)])
    weights_obj = None
    if al['kind'] == 'fixed':
        weights_obj = dict(al['weights'])
        alpha = FixedSignalsAlphaModel(weights_obj)
    elif al['kind'] == 'single':
        alpha = SingleSignalAlphaModel(universe, signal=al.get('signal', 1.0))
    elif al['kind'] == 'switch':
        alpha = SwitchAlpha(al['first'], al['then'], ts(al['when']),
                            pause=[ts(x) for x in al['pause']] if al.get('pause') else None)
    elif al['kind'] == 'topn_mom':
        sigs['momentum'] = MomentumSignal(sig_start, sig_universe, lookbacks=[al['lookback']] + list(al.get('extra_lookbacks', [])))
        signals = SignalsCollection(sigs, sig_handler)
        alpha = topn_class()(signals, al['lookback'], al['top'], universe, handler)
    elif al['kind'] == 'mom_sign':
        sigs['momentum'] = MomentumSignal(sig_start, sig_universe, lookbacks=[al['lookback']])
        signals = SignalsCollection(sigs, sig_handler)
        alpha = MomSignAlpha(signals, al['lookback'], universe,
                             watch=['EQ:' + s_ for s_ in cfg['market']['assets']])
    elif al['kind'] == 'sma_trend':
        sma_cls = SMASignal
        if al.get('custom_class'):
            class TallySMA(SMASignal):
                """A user-defined signal: the library's SMA plus its own tally of what it was given."""
                def __init__(self, *a_, **k_):
                    self.tally = []
                    super().__init__(*a_, **k_)

                def append(self, asset, price):
                    self.tally.append((asset, price))
                    super().append(asset, price)
            sma_cls = TallySMA
        sigs['sma'] = sma_cls(sig_start, sig_universe, lookbacks=[al['fast'], al['slow']])
        signals = SignalsCollection(sigs, sig_handler)
        alpha = SMATrendAlpha(signals, al['fast'], al['slow'], universe, short=not cfg['long_only'])
    elif al['kind'] == 'inv_vol':
        sigs['vol'] = VolatilitySignal(sig_start, sig_universe, lookbacks=[al['lookback']])
        if al.get('with_sma'):
            sma_universe = sig_universe
            if al.get('mixed_universes'):
                # two signals of one collection on different universes
                sma_universe = StaticUniverse(['EQ:' + s_ for s_ in cfg['market']['assets']])
            sigs['sma'] = SMASignal(sig_start, sma_universe, lookbacks=[al['with_sma']])
        signals = SignalsCollection(sigs, sig_handler)
        alpha = InvVolAlpha(signals, al['lookback'], universe)
    else:
        raise ValueError(al['kind'])
    if shared is not None and signals is not None:
        if 'signals_bundle' in shared:
            signals, sigs, alpha = shared['signals_bundle']      # the same signals collection and alpha model serve a further session
        elif shared.get('share_signals'):
            shared['signals_bundle'] = (signals, sigs, alpha)
    if shared is not None and al['kind'] == 'fixed':
        if 'alpha' in shared:
            alpha = shared['alpha']              # the same alpha model object (and its weights dict) serves several runs
        elif shared.get('share_alpha'):
            shared['alpha'] = alpha
    fee = cfg['fee']
    fm = ZeroFeeModel() if fee[0] == 'zero' else PercentFeeModel(commission_pct=fee[1], tax_pct=fee[2])
    kw = {}
    if cfg['rebalance'] == 'weekly':
        kw['rebalance_weekday'] = cfg['weekday']
    if cfg['long_only']:
        kw['cash_buffer_percentage'] = cfg['buffer']
    else:
        kw['gross_leverage'] = cfg['leverage']
    if cfg.get('both_sizing_kwargs'):
        # a parameter sweep passes the same keyword set to every session: the one that belongs to the other mode is ignored
        kw.setdefault('gross_leverage', 2.5)
        kw.setdefault('cash_buffer_percentage', 0.4)
    if cfg.get('portfolio_id'):
        kw['portfolio_id'] = cfg['portfolio_id']          # documented optional argument (also an id equal to a report key)
    default_handler = (cfg.get('default_handler') and world.adjust and getattr(world, 'extra', None) is None
                       and (shared is None or 'handler' not in shared) and signals is None)
    old_env = os.environ.get('QSTRADER_CSV_DATA_DIR')
    if default_handler and cfg.get('default_handler') == 'cwd':
        # the caller has unset the variable and changed into the data directory: the documented current-directory fallback
        sess = BacktestTradingSession(
            start, end, universe, alpha, signals=signals, initial_cash=cfg['cash'], rebalance=cfg['rebalance'],
            long_only=cfg['long_only'], fee_model=fm, burn_in_dt=ts(cfg['burn_in']) if cfg.get('burn_in') else None, **kw)
        sess._qsmon_default_handler = True
        return sess, sigs
    if default_handler:
        # the documented default: no data handler passed, prices read from $QSTRADER_CSV_DATA_DIR
        os.environ['QSTRADER_CSV_DATA_DIR'] = world.dir
    try:
        sess = BacktestTradingSession(
            start, end, universe, alpha, signals=signals, initial_cash=cfg['cash'], rebalance=cfg['rebalance'],
            long_only=cfg['long_only'], fee_model=fm, burn_in_dt=ts(cfg['burn_in']) if cfg.get('burn_in') else None,
            data_handler=None if default_handler else handler, **kw)
    finally:
        if default_handler:
            if old_env is None:
                os.environ.pop('QSTRADER_CSV_DATA_DIR', None)
            else:
                os.environ['QSTRADER_CSV_DATA_DIR'] = old_env
    sess._qsmon_default_handler = bool(default_handler)
    sess._qsmon_weights_obj = weights_obj if (shared is None or 'alpha' not in shared) else None
    return sess, sigs


def run_session(cfg, world, shared=None, observer=None):
    """Run the real session under the trace. Never raises for errors of the session itself."""
    tr = Trace()
    tr.cfg = cfg
    CUR[0] = tr
    del bw._Instr.txns[:]
    try:
        try:
            sess, sigs = build(cfg, world, shared)
        except Exception as e:
            tr.error = (type(e).__name__, str(e)[:300], 'construction')
            tr.session = None
            tr.signals = {}
            return tr
        tr.session = sess
        tr.signals = sigs
        tr.signal_names = {id(s): n for n, s in sigs.items()}
        tr.prior_appends = list(shared.get('prior_appends', [])) if shared is not None else []
        if observer is not None:
            observer(tr)
        # what a script may do with a freshly built session before running it: look at the first event of its clock,
        # refresh the signals' asset lists for the start instant, ask the (still empty) account for its equity
        look = (len(cfg['start']) + len(cfg['market']['assets']) + int(cfg['market']['seed'])) % 4
        if look == 1:
            for ev_ in sess.sim_engine:                 # walk the clock up to its first close, then leave it
                if ev_.event_type == 'market_close':
                    break
        elif look == 2:
            for sg in sigs.values():
                sg.update_assets(ts(cfg['start']))
                sg.update_assets(ts(cfg['start']))
        elif look == 3:
            sess.broker.get_account_total_equity()
            sess.broker.get_portfolio_total_market_value(sess.portfolio_id)
        tr.looked_before_run = look
        try:
            with core.loud(bool(cfg.get('loud'))):
                sess.run()
        except Exception as e:
            tr.error = (type(e).__name__, str(e)[:300], tr.now)
        tr.fills = [{'dt': d['dt'], 'asset': d['asset'], 'qty': d['qty'], 'price': d['price'],
                     'commission': d['commission'], 'raised': d['raised']} for d in bw._Instr.txns]
        return tr
    finally:
        CUR[0] = None


# ---------------------------------------------------------------------------
# monitors
# ---------------------------------------------------------------------------

def V(prop, key, msg, **w):
    raise Violation(prop, key, msg, w)


def check_c08(cfg, world, tr, acc):
    if tr.error is not None:
        V('C08', 'session-raised/%s' % tr.error[0], 'the session raised %s: %s at %s' % tr.error)
    ref = refmodel.Ref(cfg, world, acc)
    fills = [dict(f, dt=py(f['dt'])) for f in tr.fills if f['raised'] is None]
    orders = {py(r['dt']): r['orders'] for r in tr.pcm if r['orders'] is not None}
    ref.run(fills, orders)
    sess = tr.session
    p = sess.broker.portfolios[sess.portfolio_id]
    if not core.close(p.cash, ref.cash, ref.flow):
        V('C08', 'final-cash', 'final cash %r, the trading rules give %r' % (p.cash, float(ref.cash)))
    got = {a: d['quantity'] for a, d in p.portfolio_to_dict().items()}
    want = {a: q for a, q in ref.held.items() if q}
    # (the library keeps quantities as floats: beyond 2**53 a whole number is compared as the float it is stored as)
    if got != want and {a: float(q) for a, q in got.items()} != {a: float(q) for a, q in want.items()}:
        V('C08', 'final-holdings', 'final holdings %s, the trading rules give %s' % (got, want))
    caller_weights_untouched('C08', cfg, tr)
    ec = equity_curve_of(sess, acc)
    gd = list(ec.index)
    wd = [d for d, _ in ref.equity]
    if gd != wd:
        V('C08', 'equity-dates', 'equity curve has %d dates (%s..), the rules give %d (%s..)'
          % (len(gd), gd[:2], len(wd), wd[:2]))
    for (d, w), g in zip(ref.equity, list(ec['Equity'])):
        if not core.close(g, w, abs(w) + ref.flow * Fraction(1, 1000)):
            V('C08', 'equity-value', 'equity on %s is %r, cash + holdings at that close = %r' % (d, g, float(w)))
    acc.count('C08:fills_matched', len(fills))
    acc.count('C08:equity_points_matched', len(wd))
    acc.count('C08:rebalances_matched', len(orders))
    acc.count('ambiguous_boundary', ref.ambiguous)
    return ref


def equity_curve_of(sess, acc=None):
    """The session's equity curve, read the way report code does: a first copy is obtained and reworked in place (rescaled,
    given extra columns, re-indexed - exactly what the library's own statistics classes do to the frame they are given),
    then the curve is asked for again. The second answer is the one that is judged."""
    first = sess.get_equity_curve()
    try:
        if len(first.index):
            first['Equity'] = first['Equity'] / 3.0
            first['Returns'] = 0.0
            first.index = list(range(len(first.index)))
    except Exception:
        pass
    if acc is not None:
        acc.count('sessions_whose_equity_curve_was_reworked_before_being_read_again')
    return sess.get_equity_curve()


def caller_weights_untouched(prop, cfg, tr):
    obj = getattr(tr.session, '_qsmon_weights_obj', None) if tr.session is not None else None
    if obj is not None and obj != cfg['alpha']['weights']:
        V(prop, 'caller-weights-modified', 'the weights dict the caller gave to the alpha model was %s and is %s after the session'
          % (cfg['alpha']['weights'], obj))


def expected_equity_dates(cfg):
    start, end = refmodel.parse(cfg['start']), refmodel.parse(cfg['end'])
    burn = refmodel.parse(cfg['burn_in']) if cfg.get('burn_in') else None
    lo = start if burn is None else max(start, burn)
    return [t.date() for t, typ in cal.clock(start, end, False, False)
            if typ == 'market_close' and lo <= t <= end]


def check_c14(cfg, world, tr, acc):
    if tr.error is not None:
        V('C14', 'session-raised/%s' % tr.error[0], 'the session raised %s: %s at %s' % tr.error)
    sess = tr.session
    start, end = refmodel.parse(cfg['start']), refmodel.parse(cfg['end'])
    want_inst = refmodel.rebalance_instants(cfg)
    got_inst = [py(r['dt']) for r in tr.pcm]
    if got_inst != want_inst:
        extra = [str(t) for t in got_inst if t not in want_inst]
        missing = [str(t) for t in want_inst if t not in got_inst]
        burn = refmodel.parse(cfg['burn_in']) if cfg.get('burn_in') else None
        if extra and burn is not None and any(refmodel.parse(t) < burn for t in extra):
            key = 'rebalance-during-burn-in'
        elif extra:
            key = 'rebalance-off-schedule'
        else:
            key = 'rebalance-missing'
        V('C14', key, 'portfolio construction ran at %d instants, expected %d; extra %s missing %s (burn-in %s)'
          % (len(got_inst), len(want_inst), extra[:4], missing[:4], cfg.get('burn_in')))
    acc.count('C14:rebalance_instants_checked', len(want_inst))
    clock_open = {t for t, typ in cal.clock(start, end, False, False) if typ == 'market_open'}
    first = want_inst[0] if want_inst else None
    for f in tr.fills:
        t = py(f['dt'])
        if first is None or t < first:
            V('C14', 'fill-before-first-rebalance', 'fill of %s at %s precedes the first rebalance after burn-in (%s)'
              % (f['asset'], t, first))
        if t not in clock_open:
            V('C14', 'fill-not-at-open', 'fill of %s at %s is not at a market-open event' % (f['asset'], t))
    acc.count('C14:fills_checked', len(tr.fills))
    # the broker is advanced through every event of the clock of (start, end), in order, and through nothing else
    seen = []
    for t in tr.clock:
        t = py(t)
        if not seen or seen[-1] != t:
            seen.append(t)
    want_clock = [t for t, _ in cal.clock(start, end, False, False)]
    if seen != want_clock:
        miss = [str(t) for t in want_clock if t not in set(seen)]
        V('C14', 'session-clock', 'the broker was advanced through %d instants, the clock of %s .. %s has %d; not visited: %s'
          % (len(seen), cfg['start'], cfg['end'], len(want_clock), miss[:3]))
    acc.count('C14:clock_events_followed', len(seen))
    # equity curve: one point per business day with its close in [max(start, burn-in), end]
    caller_weights_untouched('C14', cfg, tr)
    ec = equity_curve_of(sess, acc)
    want_dates = expected_equity_dates(cfg)
    got_dates = list(ec.index)
    if got_dates != want_dates:
        V('C14', 'equity-dates', 'equity curve dates: %d (%s .. %s), expected %d (%s .. %s)'
          % (len(got_dates), got_dates[:1], got_dates[-1:], len(want_dates), want_dates[:1], want_dates[-1:]))
    # the curve as read DURING the run (at each rebalance, before that day's own point is taken): one point per close so far
    for t_, n_ in tr.curve_reads:
        so_far = len([d for d in want_dates if cal.at(d, cal.CLOSE) < py(t_)])
        if so_far and n_ != so_far:
            V('C14', 'equity-curve-read-during-run', 'read at the rebalance of %s the equity curve had %s points, %d closes had '
              'been recorded by then' % (py(t_), n_, so_far))
        if so_far:
            acc.count('C14:curve_reads_during_run_judged')
    if not tr.equity and want_dates:
        # the sampling hook sits on a private method; a session that records its points without it is judged by its curve only
        acc.count('C14:equity_hook_not_reached')
    elif len(tr.equity) != len(want_dates):
        V('C14', 'equity-samples', '%d equity samples taken, expected %d' % (len(tr.equity), len(want_dates)))
    for rec, d, val in zip(tr.equity, want_dates, list(ec['Equity'])):
        t = py(rec['dt'])
        if t != cal.at(d, cal.CLOSE):
            V('C14', 'equity-sample-time', 'equity for %s sampled at %s, not at the 21:00 close' % (d, t))
        want = F(rec['cash'])
        sc = abs(want)
        for a, q in rec['held'].items():
            px = world.quote(a, t)
            if px is None:
                continue
            want += F(q) * px
            sc += abs(F(q) * px)
        if not core.close(val, want, sc):
            V('C14', 'equity-not-marked-at-close', 'equity on %s is %r; cash %r + holdings %s valued at that day\'s '
              'close = %r' % (d, val, rec['cash'], rec['held'], float(want)))
    acc.count('C14:equity_points_checked', len(want_dates))
    # allocation table: forward fill of the latest rebalance row onto the equity dates
    for r in tr.pcm:
        # the row recorded at a rebalance carries the weights of that rebalance: the alpha model's value for every asset
        # it named, 0.0 for every other asset of the universe or still held
        if r['row'] is None and r['orders'] is not None:
            V('C14', 'allocation-row-missing', 'portfolio construction ran at %s (weights %s, held %s) and recorded no target '
              'allocation' % (r['dt'], r.get('alpha'), r['held']))
        if r['row'] is None or r.get('alpha') is None:
            continue
        full = set(r['held']) | set(r['universe']) | set(r['alpha'])
        want_row = {a: r['alpha'].get(a, 0.0) for a in full}
        got_row = {k: v for k, v in r['row'].items() if k != 'Date'}
        if got_row != want_row:
            V('C14', 'allocation-row-weights', 'the allocation recorded at %s is %s, the weights of that rebalance are %s'
              % (r['dt'], got_row, want_row))
        acc.count('C14:allocation_rows_against_weights')
    rows = [r['row'] for r in tr.pcm if r['row'] is not None]
    if rows:
        ta = sess.target_allocations
        if [dict(x) for x in ta] != rows:
            V('C14', 'allocation-rows', 'session.target_allocations differs from the rows recorded at each rebalance')
        df = sess.get_target_allocations()
        burn = refmodel.parse(cfg['burn_in']) if cfg.get('burn_in') else None
        exp_dates = [d for d in want_dates if burn is None or d >= burn.date()]
        if list(df.index) != exp_dates:
            V('C14', 'allocation-index', 'allocation table has %d rows, expected one per equity date (%d)'
              % (len(df.index), len(exp_dates)))
        cols = [c for c in df.columns]
        for d in exp_dates:
            latest = None
            for r in rows:
                if py(r['Date']).date() <= d:
                    latest = r
            for c in cols:
                g = df.at[d, c]
                w = float('nan') if latest is None or c not in latest else latest[c]
                if not ((g != g and w != w) or g == w):
                    V('C14', 'allocation-not-forward-filled', 'allocation of %s on %s is %r, latest rebalance says %r'
                      % (c, d, g, w))
        acc.count('C14:allocation_rows_checked', len(exp_dates))


def table_cells_follow_rows(prop, key, tr, acc, why):
    """get_target_allocations(): every cell is the value of the latest recorded row at or before its date - NaN where that
    row does not name the asset (it was not in the asset set of that rebalance) or where no rebalance has happened yet."""
    sess = tr.session
    if sess is None or tr.error is not None:
        return
    rows = [r['row'] for r in tr.pcm if r['row'] is not None]
    if not rows:
        return
    df = sess.get_target_allocations()
    for d in df.index:
        latest = None
        for r in rows:
            if py(r['Date']).date() <= d:
                latest = r
        for c in df.columns:
            g = df.at[d, c]
            w = float('nan') if latest is None or c not in latest else latest[c]
            if not ((g != g and w != w) or g == w):
                V(prop, key, 'get_target_allocations() shows %r for %s on %s; the latest rebalance at or before that day %s (%s)'
                  % (g, c, d, 'recorded %r' % w if w == w else 'did not have that asset in its asset set' if latest is not None
                     else 'does not exist yet', why))
    acc.count('%s:allocation_table_cells_checked' % prop, len(df.index) * len(df.columns))


def check_c09_session(cfg, world, tr, acc):
    """Set algebra on what portfolio construction saw and returned at every rebalance."""
    table_cells_follow_rows('C09', 'allocation-table-asset-set', tr, acc,
                            'the recorded target allocation covers exactly universe + held + alpha keys of that rebalance')
    for i, r in enumerate(tr.pcm):
        if r['orders'] is None:
            continue
        check_c09_record(r, acc)
        # once those orders have filled, holdings equal the target
        nxt = None
        t = py(r['dt'])
        later = [e for e in tr.equity if py(e['dt']) > t]
        # holdings at the next rebalance (before it trades) or at the end
        if i + 1 < len(tr.pcm):
            after = tr.pcm[i + 1]['held']
            filled = any(py(f['dt']) > t for f in tr.fills) or not r['orders'] or cal.exchange_open(t)
        else:
            sess = tr.session
            after = {a: d['quantity'] for a, d in sess.broker.get_portfolio_as_dict(sess.portfolio_id).items()}
            filled = (not r['orders']) or any(py(f['dt']) >= t for f in tr.fills if (f['asset'], f['qty']) in
                                              [(a, q) for a, q in r['orders']])
        if filled and r['target'] is not None:
            want = {a: q for a, q in r['target'].items() if q != 0}
            if {a: q for a, q in after.items()} != want:
                V('C09', 'holdings-not-on-target', 'after the orders of %s filled holdings are %s, target was %s'
                  % (r['dt'], after, want))
            acc.count('C09:post_fill_checks')


def check_c09_record(r, acc):
    held, orders, target, row, weights = r['held'], r['orders'], r['target'], r['row'], r['weights']
    alpha_w = r.get('alpha')
    alpha_keys = set(alpha_w) if alpha_w is not None else (set(weights) if weights is not None else set())
    full = set(held) | set(r['universe']) | alpha_keys
    if alpha_w is not None and weights is not None:
        for a in full:
            w = alpha_w.get(a, 0.0)
            if a not in weights or weights[a] != w:
                V('C09', 'weight-vector', 'asset %s: alpha model gave %r, the sizer received %r (universe %s, held %s)'
                  % (a, alpha_w.get(a, '(silent: 0)'), weights.get(a, '(nothing)'), sorted(r['universe']), sorted(held)))
    if target is None:
        V('C09', 'no-target', 'portfolio construction at %s produced orders without sizing' % (r['dt'],))
    if set(target) != full and len(weights) > 0:
        V('C09', 'target-asset-set', 'targets cover %s; universe + held + alpha keys is %s' % (sorted(target), sorted(full)))
    want = [(a, target.get(a, 0) - held.get(a, 0)) for a in sorted(set(target) | set(held))
            if target.get(a, 0) - held.get(a, 0) != 0]
    got = [(a, q) for a, q in orders]
    assets = [a for a, _ in got]
    if len(set(assets)) != len(assets):
        V('C09', 'duplicate-order', 'duplicate orders at %s: %s' % (r['dt'], got))
    if any(q == 0 for _, q in got):
        V('C09', 'zero-order', 'zero-quantity order at %s: %s' % (r['dt'], got))
    if assets != sorted(assets):
        V('C09', 'order-not-sorted', 'orders at %s not in ascending asset order: %s' % (r['dt'], assets))
    if got != want:
        missing = [o for o in want if o not in got]
        key = 'orders-differ'
        if any(a in held and target.get(a, 0) == 0 for a, _ in missing):
            key = 'dropped-asset-not-liquidated'
        V('C09', key, 'orders at %s are %s; target - held is %s (held %s, target %s)' % (r['dt'], got, want, held, target))
    for (cd, dr), (a, q) in zip(r.get('order_meta', []), got):
        if cd != r['dt'] or dr != (1 if q > 0 else -1):
            V('C09', 'order-fields', 'order %s x %s created %s direction %s at rebalance %s' % (q, a, cd, dr, r['dt']))
    if row is None and r.get('stats_given'):
        V('C09', 'allocation-row-missing', 'the rebalance at %s (alpha %s, held %s) recorded no target allocation' % (r['dt'], alpha_w, held))
    if row is not None:
        keys = set(row) - {'Date'}
        if keys != full:
            V('C09', 'allocation-row-keys', 'recorded allocation at %s covers %s, expected %s'
              % (r['dt'], sorted(keys), sorted(full)))
        if row['Date'] != r['dt']:
            V('C09', 'allocation-row-date', 'allocation row dated %s at rebalance %s' % (row['Date'], r['dt']))
        for a in keys:
            w = weights.get(a, 0.0) if weights is not None else 0.0
            if row[a] != w:
                V('C09', 'allocation-row-values', 'recorded weight of %s is %r, sizer received %r' % (a, row[a], w))
    acc.count('C09:rebalances_checked')
    if any(a in held and a not in r['universe'] for a in held):
        acc.count('C09:held_outside_universe')


# -- C16 ----------------------------------------------------------------------

def d_momentum(prices, n):
    w = prices[-(n + 1):]
    if len(w) < 2:
        return Fraction(0)
    return F(w[-1]) / F(w[0]) - 1


def d_sma(prices, n):
    w = prices[-n:]
    return sum(F(x) for x in w) / len(w)


def d_vol(prices, n):
    w = prices[-(n + 1):]
    rets = [w[i] / w[i - 1] - 1.0 for i in range(1, len(w))]
    if not rets:
        return 0.0
    return statistics.pstdev(rets) * math.sqrt(252) if len(rets) > 1 else 0.0


def check_signal_values(name, sig, streams, lookbacks, acc, prop='C16'):
    """Compare the real signal's values with the definitions over the harness's own record of the stream."""
    for asset, prices in streams.items():
        if not prices:
            continue
        for lb in lookbacks:
            try:
                got = sig(asset, lb)
            except Exception as e:
                V(prop, 'signal-raised/%s' % name, '%s(%s, %s) raised %r after %d prices' % (name, asset, lb, e, len(prices)))
            if name == 'momentum':
                want = d_momentum(prices, lb)
                # the value is a product of period returns 1 + r_t evaluated in doubles: where a price collapses by a
                # factor c in one period, 1 + r_t = c carries a relative rounding of ~1e-16 / c, which no implementation
                # of "compound the window's returns" can avoid; the tolerance grows accordingly (1e-9 for c >= 1e-6)
                w = prices[-(lb + 1):]
                cond = max([1.0] + [w[i - 1] / w[i] for i in range(1, len(w))])
                ok = core.close(got, want, abs(want) + 1, rel=1e-9 + 4e-16 * cond)
            elif name == 'sma':
                want = d_sma(prices, lb)
                ok = abs(F(float(got)) - want) <= Fraction(1, 10 ** 9) * abs(want)       # purely relative: prices are positive
            else:
                want = d_vol(prices, lb)
                ok = abs(float(got) - want) <= 1e-9 * (abs(want) + 1e-3)
            acc.count('C16:signal_values_checked')
            if not ok:
                V(prop, 'signal-value/%s' % name,
                  '%s(%s, lookback %d) = %r after %d prices; definition over the trailing window gives %r (window %s)'
                  % (name, asset, lb, got, len(prices), float(want), prices[-(lb + 2):]))


LOOKBACKS = {'momentum': lambda al: [al['lookback']] + list(al.get('extra_lookbacks', [])),
             'sma': lambda al: [al['fast'], al['slow']] if 'fast' in al else [al['with_sma']],
             'vol': lambda al: [al['lookback']]}


def check_c16_session(cfg, world, tr, acc):
    if tr.error is not None and tr.error[0] != 'ValueError':
        V('C16', 'session-raised/%s' % tr.error[0], 'the session raised %s: %s at %s' % tr.error)
    start, end = refmodel.parse(cfg['start']), refmodel.parse(cfg['end'])
    closes = [t for t, typ in cal.clock(start, end, False, False) if typ == 'market_close']
    if tr.error is not None:
        closes = [t for t in closes if t <= py(tr.error[2])] if tr.error[2] != 'construction' else []
    got_upd = [py(t) for t in tr.sig_updates]
    if tr.error is None and got_upd != closes:
        extra = [str(t) for t in got_upd if t not in closes]
        V('C16', 'update-cadence', 'signals updated %d times, expected once per market close (%d); extra %s'
          % (len(got_upd), len(closes), extra[:3]))
    u = cfg['universe']
    entries = {a: None for a in u.get('assets', [])} if u['kind'] == 'static' else \
        {a: (refmodel.parse(d) if d else 'never') for a, d in u['dates'].items()}
    if cfg['alpha'].get('signal_universe') == 'static_all':
        entries = {'EQ:' + s_: None for s_ in cfg['market']['assets']}
    entries_all = {'EQ:' + s_: None for s_ in cfg['market']['assets']}
    traded_entries = entries
    other_adjust = cfg['alpha'].get('signal_handler') == 'other_adjust' and getattr(world, 'extra', None) is None
    quote = world.alt_quote if other_adjust else world.quote
    if other_adjust:
        acc.count('C16:sessions_with_signals_on_their_own_data_handler')
    if cfg['alpha'].get('mixed_universes'):
        acc.count('C16:sessions_whose_signals_have_different_universes')
    by = {}
    bmap = {id(sg.buffers): id(sg) for sg in tr.signals.values()}
    for now, bid_, asset, price in tr.appends:
        if bid_ in bmap:
            by.setdefault((bmap[bid_], asset), []).append((py(now), price))
    # a user-defined signal class that overrides append() (here: one that keeps its own tally) is fed through it
    for name_, sg in tr.signals.items():
        tally = getattr(sg, 'tally', None)
        if tally is not None:
            landed = sum(1 for (s_, a_), v in by.items() if s_ == id(sg) for _ in v) + \
                sum(1 for _, bid_, _, _ in getattr(tr, 'prior_appends', []) if bmap.get(bid_) == id(sg))
            if len(tally) != landed:
                V('C16', 'custom-signal-not-fed-through-append', 'signal %s is of a user-defined class that overrides append(): %d '
                  'observations reached its buffers, its own append() saw %d' % (name_, landed, len(tally)))
            acc.count('C16:custom_signal_class_sessions')
    names = tr.signal_names
    for sid, name in names.items():
        entries = entries_all if (name == 'sma' and cfg['alpha'].get('mixed_universes')) else traded_entries
        seen_assets = {a_ for (s_, a_) in by if s_ == sid}
        for a_ in sorted(seen_assets - set(entries)):
            V('C16', 'feed-foreign-asset/%s' % name, 'signal %s was fed prices of %s, which is not in the universe it was built on (%s)'
              % (name, a_, sorted(entries)))
        for asset, entry in entries.items():
            obs = by.get((sid, asset), [])
            if entry == 'never':
                want_t = []
            else:
                want_t = [t for t in got_upd if entry is None or t >= entry]
            if tr.error is not None:
                obs_t = [t for t, _ in obs]
                if obs_t != want_t[:len(obs_t)]:
                    V('C16', 'feed-times/%s' % name, 'signal %s received %s at unexpected times' % (name, asset))
                continue
            if [t for t, _ in obs] != want_t:
                n = len(obs)
                per_day = {}
                for t, _ in obs:
                    per_day[t.date()] = per_day.get(t.date(), 0) + 1
                key = 'feed-duplicate' if any(v > 1 for v in per_day.values()) else \
                    ('feed-before-entry' if obs and entry not in (None, 'never') and obs[0][0] < entry else 'feed-missing')
                V('C16', '%s/%s' % (key, name), 'signal %s got %d observations of %s, expected %d (one per close at or '
                  'after its universe entry %s); first observed %s' % (name, n, asset, len(want_t), entry, obs[:1]))
            for t, price in obs:
                q = quote(asset, t)
                if q is None and price != price:
                    acc.count('C16:nan_fed_where_no_bar_exists_yet')
                    continue
                if q is None or not core.close(price, q, abs(q), rel=1e-12):
                    src = world.source_of(asset, price)
                    V('C16', 'feed-value/%s' % name, 'signal %s was fed %r for %s at %s (= %s); that day\'s close is %r'
                      % (name, price, asset, t, src, None if q is None else float(q)))
            acc.count('C16:feed_checks', len(obs))
    # final values against the definitions over the harness's own record
    if tr.error is None:
        for sid, name in names.items():
            sig = tr.signals[name]
            entries = entries_all if (name == 'sma' and cfg['alpha'].get('mixed_universes')) else traded_entries
            prior_by = {}
            for _, bid_, asset_, price_ in getattr(tr, 'prior_appends', []):
                if bid_ in bmap:
                    prior_by.setdefault((bmap[bid_], asset_), []).append(price_)
            # (a collection that already served an earlier session still holds the tail of what it was fed then)
            streams = {a: prior_by.get((sid, a), []) + [p for _, p in by.get((sid, a), [])] for a in entries}
            streams = {a: v for a, v in streams.items() if all(x == x for x in v)}
            check_signal_values(name, sig, streams, LOOKBACKS[name](cfg['alpha']), acc)
        late = [a for a, e in traded_entries.items() if e not in (None, 'never') and e > start]
        if late:
            acc.count('C16:late_entrants', len(late))


# -- C19 ----------------------------------------------------------------------

def check_c19_session(cfg, world, tr, acc):
    u = cfg['universe']
    if u['kind'] != 'dynamic':
        return
    if tr.error is not None:
        V('C19', 'session-raised/%s' % tr.error[0], 'the session raised %s: %s at %s' % tr.error)
    entries = {a: (refmodel.parse(d) if d else None) for a, d in u['dates'].items()}
    table_cells_follow_rows('C19', 'allocation-table-before-entry', tr, acc,
                            'an asset has no target weight before it enters the universe')
    ever_in = set()
    for r in tr.pcm:
        t = py(r['dt'])
        members = {a for a, e in entries.items() if e is not None and e <= t}
        ever_in |= members
        row = r['row'] or {}
        keys = set(row) - {'Date'}
        sig = cfg['alpha'].get('signal', 1.0)
        for a in keys:
            if a not in members and a not in r['held']:
                V('C19', 'weight-before-entry', 'asset %s has a target weight at %s but enters the universe at %s'
                  % (a, t, entries.get(a)))
        for a in members:
            if a not in keys:
                V('C19', 'member-missing', 'asset %s (entry %s) is missing from the target allocation at %s'
                  % (a, entries[a], t))
            if cfg['alpha']['kind'] == 'single' and row[a] != sig:
                V('C19', 'member-weight', 'asset %s has weight %r at %s, the alpha model gives every member %r'
                  % (a, row[a], t, sig))
        for a, q in (r['orders'] or []):
            if a not in members and a not in r['held']:
                V('C19', 'order-before-entry', 'order for %s at %s, entry %s' % (a, t, entries.get(a)))
        for a in r['held']:
            if a not in ever_in:
                V('C19', 'position-before-entry', 'position in %s at %s, entry %s' % (a, t, entries.get(a)))
        acc.count('C19:rebalances_checked')
        for a, e in entries.items():
            if e is not None:
                d = (t - e).total_seconds()
                acc.see('C19:entry_vs_rebalance', 'exactly-on' if d == 0 else 'minute-after' if d == -60 else
                        'minute-before' if d == 60 else 'before' if d > 0 else 'after')
    # "included from the first such rebalance onward": the first scheduled rebalance at or after an asset's entry (and not
    # before the burn-in instant, inclusive) is a rebalance that ran and that gave the asset its target weight
    ran = {py(r['dt']): r for r in tr.pcm}
    insts = [py(t_) for t_ in refmodel.rebalance_instants(cfg)]
    for a, e in entries.items():
        if e is None:
            continue
        first = [t_ for t_ in insts if t_ >= e]
        if not first:
            continue
        r = ran.get(first[0])
        if r is None or a not in (set(r['row'] or {}) - {'Date'}):
            V('C19', 'not-included-at-first-rebalance-after-entry', 'asset %s enters at %s; the first scheduled rebalance at or after that '
              'is %s (burn-in %s): %s' % (a, e, first[0], cfg.get('burn_in'), 'no portfolio construction ran at that instant' if r is None
                                          else 'its target allocation has no entry for the asset'))
        acc.count('C19:first_rebalances_after_entry_checked')
    for f in tr.fills:
        t = py(f['dt'])
        e = entries.get(f['asset'])
        if e is None or e > t:
            V('C19', 'fill-before-entry', 'fill in %s at %s, entry %s' % (f['asset'], t, e))


# ---------------------------------------------------------------------------
# configuration generator
# ---------------------------------------------------------------------------

SYMS = ['AAA', 'BBB', 'CCC', 'DDD', 'EEE', 'FFF', 'GGG', 'HHH']


def gen_cfg(rng, alpha_kinds=('fixed',), universe_kinds=('static',), max_days=250, full_data=True,
            burn=True, rebalances=('daily', 'weekly', 'end_of_month', 'buy_and_hold'), n_assets=None, nan_cells=None,
            expensive=False, signal_universes=False, long_eom=False, two_sources=0.15, plain_date_end=False, stale=False):
    n = n_assets or rng.randint(1, 5)
    syms = SYMS[:n]
    assets = ['EQ:' + s for s in syms]
    reb = rng.choice(rebalances)
    d0 = dt.date(1998, 1, 1) + dt.timedelta(days=rng.randint(0, 11000))
    ndays = rng.choice([15, 30, 45, 70, 120, max_days]) if max_days > 45 else rng.randint(10, max_days)
    if long_eom and reb == 'end_of_month' and rng.random() < 0.25:
        ndays = rng.choice([300, 420])            # more than a year: the same month number occurs twice
    start_tod = '14:30:00' if reb == 'buy_and_hold' else rng.choice(['00:00:00', '09:00:00', '14:30:00', '09:30:15', '09:30:00.250000', '14:29:59.999999'])
    d1 = d0 + dt.timedelta(days=int(ndays * 7 / 5))
    start = '%s %s+00:00' % (d0.isoformat(), start_tod)
    end = '%s 23:59:00+00:00' % d1.isoformat()
    if plain_date_end and start_tod == '00:00:00' and rng.random() < 0.4:
        end = '%s 00:00:00+00:00' % d1.isoformat()       # start and end both given as plain dates
    cfg = {'start': start, 'end': end, 'rebalance': reb, 'cash': float(rng.choice([5e3, 1e5, 1e6, 5e6, round(10 ** rng.uniform(3.7, 6.7), 2)]))}
    if reb == 'weekly':
        cfg['weekday'] = rng.choice(cal.WEEKDAYS)
    cfg['long_only'] = rng.random() < 0.5
    if cfg['long_only']:
        cfg['buffer'] = rng.choice([0.0, 0.01, 0.05, 0.25, 0.5])
    else:
        cfg['leverage'] = rng.choice([0.2, 1.0, 1.0, 2.0, 5.0])
    cfg['fee'] = ['zero'] if rng.random() < 0.4 else ['pct', rng.choice([0.0, 0.001, 0.005, 0.02]), rng.choice([0.0, 0.0, 0.005])]
    # burn-in
    cfg['burn_in'] = None
    if burn and rng.random() < 0.5:
        bd = [d for d in market.bdays(d0, d1)]
        if len(bd) > 3:
            d = rng.choice(bd[:max(1, len(bd) - 2)])
            tod = rng.choice(['21:00:00', '20:59:00', '21:01:00', '00:00:00', '14:30:00'])
            cfg['burn_in'] = '%s %s+00:00' % (d.isoformat(), tod)
            if rng.random() < 0.1:
                cfg['burn_in'] = '%s 00:00:00+00:00' % (d0 - dt.timedelta(days=3)).isoformat()
    # market
    first = d0 - dt.timedelta(days=12)
    mk = {'seed': rng.randint(0, 2 ** 31), 'assets': syms, 'first': first.isoformat(), 'last': (d1 + dt.timedelta(days=3)).isoformat(),
          'missing_p': rng.choice([0.0, 0.0, 0.05, 0.15]), 'adjust': rng.random() < 0.5,
          'ratio': {s: rng.choice([1.0, 1.0, 0.5, 0.83]) for s in syms}}
    if rng.random() < 0.35:
        bd_all = list(market.bdays(d0, d1))
        if len(bd_all) > 6:
            mk['holidays'] = [d.isoformat() for d in rng.sample(bd_all[2:], rng.randint(1, 3))]
    if len(syms) >= 2 and rng.random() < 0.15 and 'late' not in mk:
        mk['shift'] = {rng.choice(syms): 1}
        mk['missing_p'] = 0.0
        mk['first'] = (d0 - dt.timedelta(days=12)).isoformat()
    if expensive and rng.random() < 0.3:
        # one or two assets priced at a sizeable fraction of the account: targets of 0, 1, 2 ... units, positions that
        # must be sold down to nothing when the allocation falls below one unit's price
        mk['level'] = {s_: cfg['cash'] * rng.choice([0.03, 0.1, 0.3, 0.6, 1.5]) / max(1, n) for s_ in rng.sample(syms, min(len(syms), rng.randint(1, 2)))}
    if nan_cells == 'any' and rng.random() < 0.25:
        # expensive shares whose adjusted close is quoted to cents while the close has four decimals: Adj Close is
        # within 1e-5 of Close but not equal to it
        mk['adj_round'] = 2
        mk['adjust'] = True
        mk['ratio'] = {s_: 1.0 for s_ in syms}
        mk['level'] = {s_: rng.uniform(600, 3000) for s_ in syms}
    if nan_cells and rng.random() < 0.6:
        mk['nan_p'] = rng.choice([0.03, 0.1, 0.25])
        if nan_cells == 'any':
            mk['nan_leading'] = rng.random() < 0.6
            mk['nan_adj_only'] = rng.random() < 0.5
            if rng.random() < 0.5:
                mk['first'] = d0.isoformat()          # data begin on the very first session day
        else:
            mk['nan_from_row'] = 3
    if stale and rng.random() < 0.4:
        mk['stale_p'] = rng.choice([0.1, 0.3])
    if stale and rng.random() < 0.2 and 'adj_round' not in mk:
        mk['int_closes'] = True                      # closes in whole units (written without decimals), opens fractional
        mk['level'] = {s_: rng.uniform(20, 400) for s_ in syms}
        mk['ratio'] = {s_: 1.0 for s_ in syms}
    if rng.random() < 0.12:
        mk['jumps'] = {'p': rng.choice([0.04, 0.12]), 'size': rng.choice([0.4, 0.6, 0.75])}
    cfg['market'] = mk
    cfg['both_sizing_kwargs'] = rng.random() < 0.25
    cfg['loud'] = rng.random() < 0.2          # the library's event printing left at its default (on)
    cfg['tz_mix'] = rng.choice([None, None, None, 'start', 'end'])
    cfg['portfolio_id'] = rng.choice([None] * 6 + ['master', 'p-1'])
    cfg['default_handler'] = rng.random() < 0.35      # no data handler passed: the session builds its own from the environment
    ukind = rng.choice(universe_kinds)
    if ukind == 'static':
        cfg['universe'] = {'kind': 'static', 'assets': assets}
    else:
        dates = {}
        insts = refmodel.schedule(dict(cfg))
        for a in assets:
            r = rng.random()
            if r < 0.3 or not insts:
                dates[a] = start
            elif r < 0.4:
                dates[a] = '%s 00:00:00+00:00' % (d0 - dt.timedelta(days=30)).isoformat()
            elif r < 0.55:
                dates[a] = str(rng.choice(insts))
            elif r < 0.65:
                dates[a] = str(rng.choice(insts) + dt.timedelta(minutes=1))
            elif r < 0.7:
                dates[a] = str(rng.choice(insts) - dt.timedelta(minutes=1))
            elif r < 0.74:
                dd = [x for x in market.bdays(d0, d1)][-1]           # enters on the last simulated day
                dates[a] = '%s %s+00:00' % (dd.isoformat(), rng.choice(['14:30:00', '21:00:00', '09:00:00']))
            elif r < 0.85:
                dd = d0 + dt.timedelta(days=rng.choice([0, 0, rng.randint(1, max(2, (d1 - d0).days)), rng.randint(1, max(2, (d1 - d0).days))]))   # also later on the start's own day
                dates[a] = '%s %s+00:00' % (dd.isoformat(), rng.choice(['00:00:00', '14:30:00', '21:00:00', '12:00:00']))
            elif r < 0.93:
                dates[a] = '%s 00:00:00+00:00' % (d1 + dt.timedelta(days=10)).isoformat()
            else:
                dates[a] = None
        if all(v is None for v in dates.values()):
            dates[assets[0]] = start
        if n >= 3 and rng.random() < 0.4 and insts:
            same = str(rng.choice(insts))            # several assets entering at the same instant
            for a in assets[1:]:
                dates[a] = same
        cfg['universe'] = {'kind': 'dynamic', 'dates': dates}
        if rng.random() < 0.25:
            cfg['universe']['user_class'] = True        # the same membership rule in a user-defined Universe subclass
    if not full_data and rng.random() < 0.5:
        late_sym = rng.choice(syms)
        ld = d0 + dt.timedelta(days=rng.randint(3, max(4, ndays // 2)))
        mk['late'] = {late_sym: ld.isoformat()}
        if cfg['universe']['kind'] == 'dynamic' and rng.random() < 0.7:
            cfg['universe']['dates']['EQ:' + late_sym] = '%s 00:00:00+00:00' % (ld + dt.timedelta(days=rng.choice([0, 1, 5]))).isoformat()
    ak = rng.choice(alpha_kinds)
    if ak == 'fixed':
        w = {}
        for a in assets:
            r = rng.random()
            if r < 0.15:
                continue          # asset absent from the weight dict
            w[a] = 0.0 if r < 0.25 else rng.choice([1.0, 0.6, 0.4, 0.25, round(rng.uniform(0, 3), 3)])
            if not cfg['long_only'] and rng.random() < 0.4:
                w[a] = -w[a]
        if not w:
            w[assets[0]] = 1.0
        if rng.random() < 0.25 and any(x != 0 for x in w.values()):
            # almost-normalised weights (truncated decimals) on a large account
            target = 1.0 if cfg['long_only'] else cfg['leverage']
            g = sum(abs(x) for x in w.values())
            w = {a: round(x * target / g, 5) for a, x in w.items()}
            cfg['cash'] = float(rng.choice([1e7, 5e7, 2.5e8]))
            for s_ in syms:
                mk.setdefault('level', {})[s_] = rng.uniform(2.0, 30.0)
        if expensive and cfg['long_only'] and rng.random() < 0.25:
            # one held asset priced right at its own allocation: its floored target moves between 1 and 0
            pos_w = [a for a, x in w.items() if x > 0]
            if pos_w:
                a0 = rng.choice(pos_w)
                share = w[a0] / sum(w.values())
                mk.setdefault('level', {})[a0[3:]] = cfg['cash'] * (1 - cfg['buffer']) * share * rng.choice([0.45, 0.9, 0.97, 1.02])
        if len(assets) >= 2 and rng.random() < 0.12 and not mk.get('late') and not mk.get('shift'):     # (a copy of a late file would begin late too)
            # two share classes / a duplicated series: the second file is a copy of the first, both get the same weight -
            # equal quantities, equal market values, equal P&L
            mk['clone'] = {syms[1]: syms[0]}
            w[assets[0]] = w[assets[1]] = rng.choice([0.5, 0.3, 1.0])
        cfg['alpha'] = {'kind': 'fixed', 'weights': w}
    elif ak == 'switch':
        # a static universe of all but the last asset; the model also weights that outsider for a while, then drops it:
        # the asset set of the rebalances shrinks during the session
        members = assets[:-1] if len(assets) >= 2 else list(assets)
        outsider = assets[-1]
        cfg['universe'] = {'kind': 'static', 'assets': members}
        sgn = 1.0
        first_w = {a: rng.choice([1.0, 0.5]) for a in members}
        first_w[outsider] = rng.choice([0.3, 1.0]) * (sgn if cfg['long_only'] or rng.random() < 0.5 else -1.0)
        then_w = {a: rng.choice([1.0, 0.25]) for a in members}
        when = d0 + dt.timedelta(days=max(3, int(ndays * 7 / 5 * rng.choice([0.3, 0.5, 0.7]))))
        cfg['alpha'] = {'kind': 'switch', 'first': first_w, 'then': then_w, 'when': '%s 00:00:00+00:00' % when.isoformat()}
        if rng.random() < 0.5:
            # all cash for a stretch of the run (before or after the switch), then back in at moved prices
            p0 = d0 + dt.timedelta(days=max(2, int(ndays * 7 / 5 * rng.choice([0.15, 0.4, 0.6]))))
            p1 = p0 + dt.timedelta(days=rng.choice([2, 8, 15, 35]))
            cfg['alpha']['pause'] = ['%s 00:00:00+00:00' % p0.isoformat(), '%s 00:00:00+00:00' % p1.isoformat()]
        mk.pop('late', None)
    elif ak == 'single':
        cfg['alpha'] = {'kind': 'single', 'signal': rng.choice([1.0, 0.5, 2.0, 1e-9] if cfg['long_only'] else [1.0, -1.0, 0.5, 1e-9])}    # tiny but genuine weights
    elif ak == 'topn_mom':
        cfg['alpha'] = {'kind': 'topn_mom', 'lookback': rng.choice([1, 3, 5, 10, 21]), 'top': rng.randint(1, max(1, n - 1)),
                        'extra_lookbacks': rng.choice([[], [2], [7, 30]])}
        cfg['long_only'] = True
        cfg.setdefault('buffer', 0.05)
        cfg.pop('leverage', None)
    elif ak == 'mom_sign':
        cfg['alpha'] = {'kind': 'mom_sign', 'lookback': rng.choice([1, 3, 5, 10])}
        cfg['long_only'] = False
        cfg.setdefault('leverage', 1.0)
        cfg.pop('buffer', None)
    if ak in ('topn_mom', 'mom_sign', 'sma_trend', 'inv_vol') and signal_universes and rng.random() < 0.3:
        pass_sig = True
    else:
        pass_sig = False
    if ak == 'sma_trend':
        fast = rng.choice([1, 2, 3, 5])
        cfg['alpha'] = {'kind': 'sma_trend', 'fast': fast, 'slow': fast + rng.choice([1, 3, 8, 15]),
                        'custom_class': rng.random() < 0.4}
    elif ak == 'inv_vol':
        cfg['alpha'] = {'kind': 'inv_vol', 'lookback': rng.choice([2, 5, 10, 20])}
        if rng.random() < (0.7 if signal_universes else 0.4):
            cfg['alpha']['with_sma'] = rng.choice([3, 9])
        cfg['long_only'] = True
        cfg.setdefault('buffer', 0.05)
        cfg.pop('leverage', None)
    if pass_sig:
        cfg['alpha']['signal_universe'] = 'static_all'
    elif ak == 'inv_vol' and cfg['alpha'].get('with_sma') and signal_universes and rng.random() < 0.85:
        cfg['alpha']['mixed_universes'] = True
    if ak in ('topn_mom', 'mom_sign', 'sma_trend', 'inv_vol') and rng.random() < 0.25:
        cfg['alpha']['early_signals'] = True
        if cfg['universe']['kind'] == 'dynamic' and rng.random() < 0.6:
            # ... and one member joined between the signals' inception and the session's start
            a_ = rng.choice(sorted(cfg['universe']['dates']))
            cfg['universe']['dates'][a_] = '%s 00:00:00+00:00' % (d0 - dt.timedelta(days=rng.randint(1, 15))).isoformat()
    elif ak in ('topn_mom', 'mom_sign', 'sma_trend', 'inv_vol') and cfg['universe']['kind'] == 'static' and rng.random() < 0.2:
        # the signals were declared for a LATER date than the session's start (a home-made warm-up: the backtest starts a
        # week early): with a static universe that date selects nothing, every close from the first day on is an observation
        cfg['alpha']['late_signals'] = True
    if ak in ('topn_mom', 'mom_sign', 'sma_trend', 'inv_vol') and signal_universes and rng.random() < 0.2:
        cfg['alpha']['signal_handler'] = 'other_adjust'
        cfg['market']['ratio'] = {s_: rng.choice([0.5, 0.83, 0.9]) for s_ in syms}
    if two_sources and rng.random() < two_sources and 'shift' not in mk:
        # a second, lower-priority data source carrying some of the same tickers at other prices, over the whole
        # period; in the first source one of those tickers only starts part-way through the session, so the handler
        # answers it from the second source first and from the first source afterwards
        mk.pop('clone', None)          # (one of the tickers becomes late-starting below: no duplicated series here)
        m2 = json.loads(json.dumps(mk))
        m2['seed'] = mk['seed'] + 31337
        m2['assets'] = sorted(rng.sample(syms, rng.randint(1, len(syms))))
        for k_ in ('late', 'shift', 'nan_leading', 'holidays'):
            m2.pop(k_, None)
        m2['first'] = first.isoformat()
        m2['missing_p'] = 0.0
        if rng.random() < 0.5:
            m2['last'] = (d1 + dt.timedelta(days=rng.choice([4, 10, 40]))).isoformat()     # this vendor's files reach further
        m2['ratio'] = {s_: rng.choice([1.0, 0.5]) for s_ in m2['assets']}
        s_late = rng.choice(m2['assets'])
        if s_late not in mk.get('late', {}):
            mk.setdefault('late', {})[s_late] = (d0 + dt.timedelta(days=rng.randint(2, max(3, ndays // 2)))).isoformat()
        cfg['market2'] = m2
    return cfg


def make_world(cfg, rewrite_spec=None, shuffle=True):
    rows = market.build_rows(cfg['market'])
    if rewrite_spec is not None:
        rows = market.rewrite(rows, rewrite_spec)
    w = market.World(rows, cfg['market']['adjust'], shuffle_seed=cfg['market']['seed'] if shuffle else None,
                     int_closes=bool(cfg['market'].get('int_closes')))
    if cfg.get('market2'):
        rows2 = market.build_rows(cfg['market2'])
        if rewrite_spec is not None:
            rows2 = market.rewrite(rows2, rewrite_spec)
        w.extra = market.World(rows2, cfg['market2']['adjust'])
        inner_close = w.close

        def close_both():
            w.extra.close()
            inner_close()
        w.close = close_both
    return w


def cfg_signature(cfg):
    return (cfg['rebalance'], cfg.get('weekday'), cfg['long_only'], cfg['fee'][0], cfg['alpha']['kind'],
            cfg['universe']['kind'], len(cfg['market']['assets']), cfg['market']['seed'], bool(cfg.get('burn_in')),
            cfg['start'][11:16])


def check_c13_session(cfg, world, tr, acc):
    """Every scheduled instant of the range is acted on by the running session (no burn-in)."""
    if tr.error is not None:
        V('C13', 'session-raised/%s' % tr.error[0], 'the session raised %s: %s at %s' % tr.error)
    want = refmodel.rebalance_instants(dict(cfg, burn_in=None))
    sched = refmodel.schedule(cfg)
    if sched != want:
        V('C13', 'instant-off-clock', 'scheduled instants %s are not events of the clock of the same range'
          % [str(t) for t in sched if t not in want][:3])
    got = [py(r['dt']) for r in tr.pcm]
    if got != want:
        V('C13', 'session-skips-rebalance', 'the session (start %s, %s) rebalanced at %d instants, its schedule has %d; skipped: %s'
          % (cfg['start'], cfg['rebalance'], len(got), len(want), [str(t) for t in want if t not in got][:3]))
    # the schedule the session holds is still the schedule of its range once the run is over (a run reads it, it does not use it up)
    after = [py(t) for t in tr.session.rebalance_schedule]
    if after != sched:
        V('C13', 'session-schedule-after-run', 'after run() the session (start %s, %s) holds a schedule of %d instants (%s...), the '
          'dates of its range give %d' % (cfg['start'], cfg['rebalance'], len(after), [str(t) for t in after[:2]], len(sched)))
    acc.count('C13:session_schedules_read_after_run')
    acc.count('C13:session_rebalances_observed', len(got))
    acc.count('C13:sessions_run')


CHECKS = {'C13': check_c13_session, 'C08': check_c08, 'C14': check_c14, 'C09': check_c09_session, 'C16': check_c16_session,
          'C19': check_c19_session}


def run_case(cfg, acc, prop):
    world = make_world(cfg)
    try:
        tr = run_session(cfg, world)
        if getattr(tr.session, '_qsmon_default_handler', False):
            acc.count('sessions_with_default_data_handler')
        if cfg.get('market2'):
            acc.count('sessions_with_two_data_sources')
        try:
            res = CHECKS[prop](cfg, world, tr, acc)
        except Violation as v:
            acc.violation(v, cfg)
            return tr, None
        return tr, res
    finally:
        world.close()
