#!/bin/bash
# setup_cmd: offline install of the contract library beside the framework,
# byte-compile check of the framework, smoke import of the repository.
set -u
cd "$(dirname "$0")"
PY=/venv/bin/python
if ! PYTHONPATH=./.deps $PY -c "import icontract" 2>/dev/null; then
  /venv/bin/pip install --quiet --no-index --find-links /opt/veriftools/wheels \
      --target ./.deps icontract >/dev/null 2>&1 || echo "setup: icontract not installed (contract layer off)"
fi
PYTHONDONTWRITEBYTECODE=1 $PY - <<'PY' || exit 1
import sys, os
sys.path.insert(0, os.getcwd())
from qsmon import core
core.boot()
import qstrader
print("setup ok: qstrader from", os.path.dirname(qstrader.__file__))
PY
